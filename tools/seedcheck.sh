#!/bin/bash
# Confirm a seeded change produced by a sub-agent, then run the checks against it.
# usage: seedcheck.sh <seed-id> <dir containing patch.diff + demo test (+ notes.md)> <checks,comma> [budget-ms]
# Steps: fresh scratch worktree of /repo HEAD; (1) demo passes without the change, (2) patch applies,
# (3) repo suite passes with the change, (4) demo fails with the change, (5) each check is run with
# VSIM_REPO=<worktree>; prints one summary line per step; removes the worktree.
set -u
id="$1"; src="$2"; checks="${3:-}"; budget="${4:-6000}"
export GOFLAGS=-mod=mod GOPROXY=off GOSUMDB=off
wt="/tmp/seedchk-$id-$$"
git -C /repo worktree add -q --detach "$wt" HEAD || exit 2
cleanup() { git -C /repo worktree remove --force "$wt" >/dev/null 2>&1; rm -rf "$wt"; }
trap cleanup EXIT
demo=$(ls "$src"/*_test.go 2>/dev/null | head -1)
[ -n "$demo" ] || { echo "SEED $id: no demo test"; exit 2; }
pkgdir="$wt"
# the demo's package decides where it goes
pkg=$(grep -m1 '^package ' "$demo" | awk '{print $2}')
case "$pkg" in replication|replication_test) pkgdir="$wt/replication";; esac
cp "$demo" "$pkgdir/"
dn=$(basename "$demo")
( cd "$pkgdir" && go test -count=1 -run 'Seed|ZZ|Demo|seeded' . >/tmp/seedchk-$$.out 2>&1 ); r0=$?
echo "SEED $id: demo on original tree: exit=$r0 (want 0)"; [ $r0 -ne 0 ] && tail -5 /tmp/seedchk-$$.out
( cd "$wt" && git apply "$src/patch.diff" ) || { echo "SEED $id: patch does not apply"; exit 2; }
mv "$pkgdir/$dn" /tmp/seedchk-$$-demo.go
( cd "$wt" && go build ./... && go test -count=1 ./... >/tmp/seedchk-$$.out 2>&1 ); r1=$?
echo "SEED $id: existing suite with the change: exit=$r1 (want 0)"; [ $r1 -ne 0 ] && tail -5 /tmp/seedchk-$$.out
mv /tmp/seedchk-$$-demo.go "$pkgdir/$dn"
( cd "$pkgdir" && go test -count=1 -run 'Seed|ZZ|Demo|seeded' . >/tmp/seedchk-$$.out 2>&1 ); r2=$?
echo "SEED $id: demo with the change: exit=$r2 (want non-zero)"
rm -f "$pkgdir/$dn" /tmp/seedchk-$$.out
for c in ${checks//,/ }; do
  out=$(VSIM_REPO="$wt" VSIM_BUDGET_MS=$budget VSIM_NO_EVIDENCE=1 VSIM_REPLAYS=/verif/.cache/mut-replays VSIM_RACE_RUNS=40 /verif/check $c quick 2>&1); rc=$?
  rules=$(echo "$out" | grep -o 'rule=[^ ]*' | sort -u | tr '\n' ' ')
  echo "SEED $id: check $c exit=$rc $rules"
  echo "$out" | grep -m1 -A0 '^  rule=' | cut -c1-400
  [ $rc -eq 2 ] && echo "$out" | tail -8 | cut -c1-300
done
