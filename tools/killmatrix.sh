#!/bin/bash
# Run the quick check of the property each seeded change breaks, with the default
# quick budget, against a scratch worktree carrying the change; benign refactorings
# are run against every check. Writes /verif/seeded/KILLMATRIX.md.
# usage: killmatrix.sh [id-glob]      (default: all)
set -u
export GOFLAGS=-mod=mod GOPROXY=off GOSUMDB=off
glob="${1:-*}"
out=/verif/seeded/KILLMATRIX.md
[ "$glob" = "*" ] || out=/verif/seeded/KILLMATRIX-partial.md   # a partial re-run does not overwrite the full matrix
tmp=$(mktemp)
echo "| seed | check | exit | rules |" > $tmp
echo "|---|---|---|---|" >> $tmp
for d in /verif/seeded/$glob/; do
  id=$(basename "$d")
  [ -f "$d/patch.diff" ] || continue
  wt="/tmp/km-$id-$$"
  git -C /repo worktree add -q --detach "$wt" HEAD || continue
  if ! git -C "$wt" apply "$d/patch.diff"; then echo "| $id | - | patch does not apply | |" >> $tmp; git -C /repo worktree remove --force "$wt"; continue; fi
  case "$id" in
    benign-*|C07-j) checks="C01 C02 C03 C04 C05 C06 C07 C08 C15 C17" ;;  # must all be exit 0
    C01-d) checks="C03 C04" ;;
    *) checks="${id%%-*}" ;;
  esac
  for c in $checks; do
    o=$(VSIM_REPO="$wt" VSIM_NO_EVIDENCE=1 VSIM_REPLAYS=/verif/.cache/km-replays /verif/check $c quick 2>&1); rc=$?
    rules=$(echo "$o" | grep -o 'rule=[^ ]*' | sort -u | sed 's/rule=//' | tr '\n' ' ')
    echo "| $id | $c | $rc | $rules |" >> $tmp
    echo "$id $c exit=$rc $rules"
  done
  git -C /repo worktree remove --force "$wt" >/dev/null 2>&1; rm -rf "$wt"
done
rm -rf /verif/.cache/km-replays
{ echo "# Kill matrix (default quick budgets, VERIF_SEED=${VERIF_SEED:-1})"; echo; echo "exit 1 = the check raised a VIOLATION on the changed tree; benign-* rows must be exit 0."; echo; cat $tmp; } > $out
rm -f $tmp
