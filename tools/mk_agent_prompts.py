import json,glob,os
t=open('/tmp/agent-prompt.txt').read()
used={}
for d in sorted(glob.glob('/verif/seeded/C*/meta.json')):
    m=json.load(open(d)); pid=m['id'].split('-')[0]
    used.setdefault(pid,[]).append("- "+m['change']+" (needs: "+m['needs_to_manifest']+")")
extra="""To make this seeded change valuable, make it as HARD TO DETECT as you can while still being a realistic mistake: assume the people checking this property run large numbers of randomized end-to-end simulations (generated binlogs served by a fake master over an in-memory connection, random packet segmentation, random fault points and stalls, random cancellation times, boundary sizes and offsets). Your defect should need a RARE COINCIDENCE or an unusual-but-legal situation to show, must still be a genuine violation of the property when it happens, and must be deterministic to demonstrate in your demo test.

The following ideas have ALREADY been used for this property - do something clearly DIFFERENT (a different mechanism and a different trigger):
USED

Your task:
"""
for k in ["C01","C02","C03","C04","C05","C06","C07","C08","C15","C17"]:
    open(f'/tmp/agent-prompt-{k}-w.txt','w').write(t.replace("Your task:\n", extra.replace("USED","\n".join(used.get(k,[])))))
print(open('/tmp/agent-prompt-C06-w.txt').read()[2600:4200])
