#!/usr/bin/env python3
"""Sensitivity runs: apply one mutation (or a patch file) to a scratch worktree of /repo,
confirm the pinned suite still passes, run the given checks against it, report which
checks raise an alarm, remove the worktree.

usage: mutate.py <name> [--checks C04,C05] [--budget-ms 6000] [--tier quick]
       mutate.py --patch <file.diff> --name <id> [--checks ...]
       mutate.py --list
"""
import argparse, os, re, shutil, subprocess, sys, json, time

ENV = dict(os.environ, GOFLAGS="-mod=mod", GOPROXY="off", GOSUMDB="off")

# name: (file, old, new, expected-to-be-caught-by)
MUT = {
 "no-event-copy": ("slave_connection.go", "data := make([]byte, len(buf)-1)\n\tcopy(data, buf[1:])", "data := buf[1:]", "C08,C01"),
 "reader-no-ctx": ("slave_connection.go", "\t\t\tcase <-ctx.Done():\n\t\t\t\t_log.Infof(\"startDumpFromBinlogPosition stop by ctx. reason: %v\", ctx.Err())\n\t\t\t\ts.errChan <- newError(ctx.Err()).msgf(\"startDumpFromBinlogPosition cancel\")\n\t\t\t\tclose(s.errChan)\n\t\t\t\treturn\n", "", "C05"),
 "no-close-errchan": ("slave_connection.go", "\t\t\t\ts.errChan <- err\n\t\t\t\tclose(s.errChan)", "\t\t\t\ts.errChan <- err", "C05"),
 "unbuffered-errchan": ("slave_connection.go", "errChan: make(chan *Error, 1),", "errChan: make(chan *Error),", "C05"),
 "no-defer-close": ("streamer.go", "\tdefer conn.close()\n", "", "C05"),
 "no-derived-cancel": ("streamer.go", "\tdefer cancelDump()\n", "\t_ = cancelDump\n", "C05"),
 "stream-nil-on-handler-error": ("streamer.go", "\tif err != nil {\n\t\treturn err.msgf(\"parseEvents fail in pos: %+v\", err)\n\t}\n\treturn nil", "\treturn nil", "C06"),
 "error-swallow": ("streamer.go", "\t\t\tdefault:\n\t\t\t\treturn err\n\t\t\t}", "\t\t\tdefault:\n\t\t\t\treturn nil\n\t\t\t}", "C06"),
 "err-as-eof": ("slave_connection.go", "\tcase mysql.PacketERR:\n\t\treturn nil, newError(s.dc.HandleErrorPacket(buf)).msgf(\"fetch error packet\")", "\tcase mysql.PacketERR:\n\t\treturn nil, newError(errStreamEOF).msgf(\"fetch error packet\")", "C06"),
 "nonblocking-flag": ("slave_connection.go", "s.dc.NoticeDump(serverID, uint32(pos.Offset), pos.Filename, 0)", "s.dc.NoticeDump(serverID, uint32(pos.Offset), pos.Filename, 1)", "C07"),
 "offset-31bit": ("slave_connection.go", "s.dc.NoticeDump(serverID, uint32(pos.Offset), pos.Filename, 0)", "s.dc.NoticeDump(serverID, uint32(pos.Offset)&0x7fffffff, pos.Filename, 0)", "C07,C03"),
 "skip-set-checksum": ("slave_connection.go", "\tif err := s.prepareForReplication(); err != nil {\n\t\ts.close()\n\t\treturn nil, err\n\t}\n", "", "C07"),
 "pos-before-send": ("streamer.go", "\t\tnext := pos\n\t\tnext.Offset = ev.NextPosition()\n\t\ttran := newTransaction(now, next, int64(ev.Timestamp()), tranEvents)", "\t\tnext := pos\n\t\tnext.Offset = ev.NextPosition()\n\t\tpos = next\n\t\ttran := newTransaction(now, next, int64(ev.Timestamp()), tranEvents)", "C04"),
 "miscount-zero-pos": ("streamer.go", "\t\t\t\treturn pos,\n\t\t\t\t\tnewError(fmt.Errorf(\"parseEvents the length of column in tableMap", "\t\t\t\treturn Position{},\n\t\t\t\t\tnewError(fmt.Errorf(\"parseEvents the length of column in tableMap", "C04"),
 "drop-setpos": ("streamer.go", "\ts.SetBinlogPosition(pos)\n\tif err != nil {", "\t_ = pos\n\tif err != nil {", "C04"),
 "setpos-only-on-success": ("streamer.go", "\ts.SetBinlogPosition(pos)\n\tif err != nil {\n\t\treturn err.msgf(\"parseEvents fail in pos: %+v\", err)\n\t}", "\tif err != nil {\n\t\treturn err.msgf(\"parseEvents fail in pos: %+v\", err)\n\t}\n\ts.SetBinlogPosition(pos)", "C04"),
 "commit-on-begin": ("streamer.go", "\t\t\tcase StatementBegin:\n\t\t\t\tbegin()", "\t\t\tcase StatementBegin:\n\t\t\t\tbegin()\n\t\t\t\tautocommit = true", "C02"),
 "forget-clear-events": ("streamer.go", "\t\tpos = next\n\t\ttranEvents = nil", "\t\tpos = next", "C02,C01"),
 "deliver-on-rollback": ("streamer.go", "\t\t\tcase StatementRollback:\n\t\t\t\ttranEvents = nil\n\t\t\t\tfallthrough", "\t\t\tcase StatementRollback:\n\t\t\t\tfallthrough", "C02"),
 "case-sensitive": ("mysql_types.go", "statementPrefixes[strings.ToLower(sql)]", "statementPrefixes[sql]", "C02"),
 "ignore-rotate": ("streamer.go", "\t\t\tpos.Filename = filename\n\t\t\tpos.Offset = offset", "\t\t\t_ = filename\n\t\t\t_ = offset", "C03,C04"),
 "rotate-keep-offset": ("streamer.go", "\t\t\tpos.Filename = filename\n\t\t\tpos.Offset = offset", "\t\t\tpos.Filename = filename\n\t\t\t_ = offset", "C03"),
 "isvalid-weak": ("replication/binlog_event_common.go", "if evLen < 19 || evLen != uint32(bufLen) {", "if evLen < 19 || evLen > uint32(bufLen) {", "C17"),
 "isvalid-18": ("replication/binlog_event_common.go", "\tif bufLen < 19 {\n\t\treturn false\n\t}", "\tif bufLen < 13 {\n\t\treturn false\n\t}", "C17"),
 "skip-isvalid": ("streamer.go", "\t\tif !ev.IsValid() {", "\t\tif false && !ev.IsValid() {", "C17"),
 "keep-first-tablemap": ("streamer.go", "\t\t\t\ttablesMaps[tableID].tableMap = tm\n\t\t\t\tcontinue", "\t\t\t\tcontinue", "C15"),
 "drop-column-count-check": ("streamer.go", "\t\t\tif len(info.Columns()) != tm.CanBeNull.Count() {", "\t\t\tif false && len(info.Columns()) != tm.CanBeNull.Count() {", "C15"),
 "int24-sign": ("replication/binlog_event_rbr.go", "if !isUnSignedInt && data[pos+2]&128 > 0 {", "if !isUnSignedInt && data[pos+2]&64 > 0 {", "C01"),
 "v2-extra-data": ("replication/binlog_event_rbr.go", "\t\tpos += int(extraDataLength)\n", "\t\tpos += 2\n\t\t_ = extraDataLength\n", "C01"),
 "null-bitmap-index": ("streamer.go", "\t\tif rs.Rows[rowIndex].NullColumns.Bit(valueIndex) {", "\t\tif rs.Rows[rowIndex].NullColumns.Bit(c) {", "C01"),
 "tx-timestamp": ("streamer.go", "tran := newTransaction(now, next, int64(ev.Timestamp()), tranEvents)", "tran := newTransaction(now, next, int64(ev.Timestamp())+int64(len(tranEvents)/7), tranEvents)", "C01"),
 "new-race-in-gobinlog": ("slave_connection.go", "\t\t\tev, err := s.readBinlogEvent()\n", "\t\t\tev, err := s.readBinlogEvent()\n\t\t\ts.destructionCount++\n", "C05"),
 "xid-after-sql-only": ("streamer.go", "\t\t\ttranEvents = append(tranEvents, tranEvent)\n\t\t\tif autocommit {\n\t\t\t\tif err = commit(ev); err != nil {\n\t\t\t\t\treturn pos, newError(err).msgf(\"parseEvents commit fail in WriteRows event\")", "\t\t\ttranEvents = append(tranEvents, tranEvent)\n\t\t\tif autocommit && len(rows.Rows) > 1 {\n\t\t\t\tif err = commit(ev); err != nil {\n\t\t\t\t\treturn pos, newError(err).msgf(\"parseEvents commit fail in WriteRows event\")", "C02"),
}

EXTRA = {
 "new-race-in-gobinlog": [("\terrChan     chan *Error\n}", "\terrChan     chan *Error\n\tdestructionCount int\n}"),
                          ("\t\t\tif s.dc != nil {\n\t\t\t\ts.dc.Close()", "\t\t\tif s.dc != nil && s.destructionCount >= 0 {\n\t\t\t\ts.dc.Close()")],
}

def sh(cmd, cwd=None, env=ENV, timeout=3600):
    p = subprocess.run(cmd, shell=True, cwd=cwd, env=env, stdout=subprocess.PIPE, stderr=subprocess.STDOUT, text=True, errors='replace', timeout=timeout)
    return p.returncode, p.stdout

def main():
    ap = argparse.ArgumentParser()
    ap.add_argument("name", nargs="?")
    ap.add_argument("--patch")
    ap.add_argument("--checks", default="")
    ap.add_argument("--budget-ms", default="5000")
    ap.add_argument("--tier", default="quick")
    ap.add_argument("--list", action="store_true")
    ap.add_argument("--all-checks", action="store_true")
    ap.add_argument("--keep", action="store_true")
    a = ap.parse_args()
    if a.list:
        for k, v in MUT.items():
            print(k, "->", v[3])
        return
    name = a.name
    wt = f"/tmp/mut-{name}-{os.getpid()}"
    rc, out = sh(f"git -C /repo worktree add -q --detach {wt} HEAD")
    if rc != 0:
        print(out); sys.exit(2)
    try:
        expected = ""
        if a.patch:
            rc, out = sh(f"git apply {os.path.abspath(a.patch)}", cwd=wt)
            if rc != 0:
                print("PATCH DOES NOT APPLY:", out); sys.exit(2)
        else:
            f, old, new, expected = MUT[name]
            path = os.path.join(wt, f)
            s = open(path).read()
            if old not in s:
                print(f"MUTATION {name}: anchor not found in {f}"); sys.exit(2)
            s = s.replace(old, new, 1)
            for o2, n2 in EXTRA.get(name, []):
                if o2 not in s:
                    print(f"MUTATION {name}: extra anchor not found"); sys.exit(2)
                s = s.replace(o2, n2, 1)
            open(path, "w").write(s)
        rc, out = sh("go build ./... && go test -count=1 ./...", cwd=wt)
        suite = "passes" if rc == 0 else "FAILS"
        if rc != 0:
            print(out[-1500:])
        checks = [c for c in (a.checks or expected).split(",") if c]
        if a.all_checks:
            checks = ["C01","C02","C03","C04","C05","C06","C07","C08","C15","C17"]
        res = {}
        for c in checks:
            env = dict(ENV, VSIM_REPO=wt, VSIM_BUDGET_MS=a.budget_ms, VSIM_NO_EVIDENCE="1", VSIM_REPLAYS="/verif/.cache/mut-replays")
            if c == "C05":
                env["VSIM_RACE_RUNS"] = "40"
            t0 = time.time()
            rc, out = sh(f"/verif/check {c} {a.tier}", env=env)
            rules = sorted(set(re.findall(r"rule=(\S+)", out)))
            res[c] = (rc, rules, round(time.time()-t0, 1))
            first = [l for l in out.splitlines() if l.strip().startswith("rule=")][:1]
            print(f"  {c}: exit={rc} rules={rules} {first[0][:300] if first else ''}")
            if rc == 2:
                print(out[-1500:])
        caught = [c for c, (rc, _, _) in res.items() if rc == 1]
        print(f"MUTATION {name}: suite {suite}; caught by {caught or 'NOTHING'} (ran {list(res)})")
    finally:
        if not a.keep:
            sh(f"git -C /repo worktree remove --force {wt}")
            shutil.rmtree(wt, ignore_errors=True)
        # replays written during sensitivity runs are scratch
        for f in os.listdir("/verif/replays"):
            pass

if __name__ == "__main__":
    main()
