import json, os, shutil, glob
W='u'
rows = {
 'C01': ("query events with a non-zero error code skipped ('the statement failed on the master')",
         "a DDL / DML query event logged with an error code",
         "C01: count, event-count, order (through the killed-statement error codes of wave q)"),
 'C02': ("memory bound: an open transaction is committed and re-opened at its 16384th row event",
         "a transaction with at least 16384 row events",
         "C02: early-delivery, grouping - **missed at first** (bulk transactions went up to 4100 statements; one in five now has 16400)"),
 'C03': ("an unknown-category statement resets the transaction state (buffered changes dropped, autocommit on)",
         "SAVEPOINT (or any unknown statement) between BEGIN and the commit with a row change behind it",
         "C03: content:extra-call, resume-suffix, crash-restart-exactly-once"),
 'C04': ("accepting the empty transaction of a ROLLBACK does not move the position",
         "a rolled-back group accepted as last transaction of an attempt, then a retry",
         "C04: resume-coordinate"),
 'C05': ("Stream holds a mutex for its whole run and SetBinlogPosition takes it",
         "a handler that calls SetBinlogPosition on the Streamer that is delivering to it",
         "C05: hang - **missed at first**, two changes: a sixth of the attempts now have a handler that records its progress with SetBinlogPosition(tx.NextPosition), and the process watchdog attributes a case that cannot step because library code waits for a sync lock (not only one that spins)"),
 'C06': ("a TABLE_MAP whose metadata block is longer than its columns account for is accepted when the master announces an 8.x version",
         "an 8.x format description and a table map with an over-long metadata block",
         "C06: stream-nil-on-failure - **missed at first** (the decode-failure unit now also comes as a table map whose metadata block is two bytes too long)"),
 'C07': ("a recover() in Stream turns a callback panic into an error and stores Stream's still-zero local position",
         "a handler / mapper panic, then another Stream call",
         "C07: offset - **missed at first** (panicking callbacks are now part of the C07 family; when the panic comes *out of* Stream the next request may be for the position that call started from, when Stream returns an error the stored position must be right)"),
 'C08': ("per-connection ring of 1026 copy buffers behind a 1024-deep event channel",
         "a retained by-reference value and 1026 further packets on the same connection",
         "C08: later-delivery-corrupted, mutated-after-delivery"),
 'C15': ("schema / table names interned process-wide by (length, first 64 bytes)",
         "two names of the same length that agree in their first 64 bytes",
         "C15: attribution, mapper-call, wrong-table - **missed at first** (one history in twelve now has two tables whose names or schemas are 65..200 bytes long and differ in one late byte)"),
 'C17': ("TypeName() of ignored events looked up in a 39-entry table while a transaction is open",
         "a well-formed event of type 39 or above between BEGIN and its commit",
         "C17: panic"),
}
for p,(chg,needs,caught) in rows.items():
    src=f'/tmp/wt-{p}-{W}/_seeded'
    dst=f'/verif/seeded/{p}-{W}'
    os.makedirs(dst,exist_ok=True)
    for f in glob.glob(src+'/*'):
        shutil.copy(f,dst)
    meta={"id":f"{p}-{W}","property":p,"change":chg,"needs_to_manifest":needs,
     "produced_by":"fresh sub-agent given only the property text, a scratch worktree, the list of ideas already used for that property, and the request for a rare-coincidence defect",
     "confirmed":"tools/seedcheck.sh: demo passes on the original tree; patch applies; pinned suite passes with the change; demo fails with the change",
     "ran":f"tools/seedcheck.sh {p}-{W} seeded/{p}-{W} <checks> (VSIM_REPO=<scratch worktree> ./check <id> quick)",
     "caught_by":caught}
    json.dump(meta,open(dst+'/meta.json','w'),indent=1)
    print(f"| {p}-{W} | {chg} | {caught.replace(p+': ', p+' ',1)} |")
