import json, os, shutil, glob
W='k'
rows = {
 'C01': ("FORMAT_DESCRIPTION events after the first one of a dump are skipped (format frozen)",
         "one dump that crosses into a file whose checksum setting differs from the first file's",
         "C01: count, panic, query, row-count, stream-result"),
 'C02': ("status-variable block length of a QUERY event read as one byte",
         "a boundary statement (BEGIN/COMMIT/...) whose status-variable block is 256 bytes or longer",
         "C02: early-delivery, grouping, rollback-delivered"),
 'C03': ("events whose header server_id equals the replica's own id dropped, offset moved past them",
         "a binlog in which some transactions carry the replica's own server id",
         "C03: chain, content:count, crash-restart-exactly-once"),
 'C04': ("a ROTATE that arrives while a transaction is open does not move the resume position",
         "a file that ends with an unfinished transaction, a transaction accepted in the next file, then a retry",
         "C04: reordered"),
 'C05': ("reader posts a package-level *Error sentinel that msgf mutates",
         "two reader goroutines leaving through the ctx.Done branch without a happens-before edge (second Stream call without Error() in between)",
         "C05: race - **missed at first** (race mode now skips the optional Error() call between attempts in a third of the runs)"),
 'C06': ("Stream returns nil when parseEvents failed while the caller's context is cancelled",
         "a handler / mapper / decode failure returned while the context is already cancelled",
         "C06: stream-nil-on-failure - **missed at first** (a handler call that returned an error or a failed table lookup must now yield a non-nil Stream result whatever other causes overlap; before, overlapping causes that began with a cancel were not judged)"),
 'C07': ("a ROTATE directly after another ROTATE skipped, FORMAT_DESCRIPTION does not clear the flag",
         "a binlog file holding only its FORMAT_DESCRIPTION and the closing ROTATE, then an accepted transaction, then a retry",
         "C07: offset"),
 'C08': ("delivered Events slice is the parser's scratch slice when len == cap (16, 32, ...)",
         "a transaction of exactly 16 (32, 64) changes that the handler retains, followed by any further event",
         "C08: mutated-after-delivery"),
 'C15': ("Bitmap.BitCount counts set padding bits of the last byte",
         "a partial row image whose columns-present bitmap has its unused bits set to 1",
         "C15: panic (C01 value rules as well) - **missed at first** (the encoder zero-padded every bitmap; unused bits of row NULL bitmaps - as the server writes them - columns-present bitmaps and the table-map nullability bitmap are now set in most histories)"),
 'C17': ("StripChecksum clips the capacity of the stripped event",
         "a gate-accepted bare header (19/20 bytes, consistent length) of type XID on a checksummed stream",
         "C17: panic - **missed at first** (bare headers of 19..22 bytes that pass the gate are now injected; only the no-panic clause is judged for them)"),
}
for p,(chg,needs,caught) in rows.items():
    src=f'/tmp/wt-{p}-{W}/_seeded'
    dst=f'/verif/seeded/{p}-{W}'
    os.makedirs(dst,exist_ok=True)
    for f in glob.glob(src+'/*'):
        shutil.copy(f,dst)
    meta={"id":f"{p}-{W}","property":p,"change":chg,"needs_to_manifest":needs,
     "produced_by":"fresh sub-agent given only the property text, a scratch worktree, the list of ideas already used for that property, and the request for a rare-coincidence defect",
     "confirmed":"tools/seedcheck.sh: demo passes on the original tree; patch applies; pinned suite passes with the change; demo fails with the change",
     "ran":f"tools/seedcheck.sh {p}-{W} seeded/{p}-{W} <checks> (VSIM_REPO=<scratch worktree> ./check <id> quick)",
     "caught_by":caught}
    json.dump(meta,open(dst+'/meta.json','w'),indent=1)
    print(f"| {p}-{W} | {chg} | {caught.replace(p+': ', p+' ',1)} |")
