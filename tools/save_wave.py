import json, os, shutil, glob
W='m'
rows = {
 'C01': ("per-dump table cache capped at 1024 entries and emptied when a new id arrives at the cap",
         "a dump that has seen exactly k*1024 table ids, then a multi-table statement whose second table map carries the next new id",
         "C01: count, stream-result"),
 'C02': ("query events whose default database is mysql / information_schema / performance_schema / sys skipped before classification, BEGIN/COMMIT included",
         "a transaction logged by a session whose default database is a server schema",
         "C02: early-delivery, grouping, rollback-delivered - **missed at first** (server schema names are now among the default databases of query events and among the table schemas)"),
 'C03': ("file name of the dump's opening artificial ROTATE adopted with a guess about a trailing CRC",
         "CRC32 stream whose opening rotate's checksum bytes read like '.digits' or four digits (about 1 start in 7800)",
         "C03: chain, crash-restart-exactly-once, resume-suffix"),
 'C04': ("STOP_EVENT treated as end of stream: parseEvents returns at it",
         "a file that ends with a STOP event, the next file announced only by the artificial rotate, transactions in it",
         "C04: lost"),
 'C05': ("start offsets outside 0..2^32-1 refused after the connection is up and before its close is deferred",
         "SetBinlogPosition with an Offset of 2^32 or more, connection attempt succeeds",
         "C05: goroutine-leak:watcher, socket-not-closed - **missed at first** (one C05 scenario in sixteen now adds a multiple of 2^32 to the offset given to SetBinlogPosition; the dump request carries the low 32 bits, so the master sees the same coordinate)"),
 'C06': ("undecodable FORMAT_DESCRIPTION that is not the first of the attempt logged and ignored",
         "a FORMAT_DESCRIPTION of binlog version 3 / header length < 19 after a valid one, then a clean end",
         "C06: stream-nil-on-failure (through the undecodable-event variants added in wave j)"),
 'C07': ("DDL query inside BEGIN..XID acts as commit point (same line as C03-i/C04-i), judged on the dump request",
         "attempt ending between an in-transaction DDL and its XID, then another attempt",
         "C07: offset"),
 'C08': ("per-event buffers from a sync.Pool, returned by a finalizer on the decoded StreamEvent",
         "a consumer that keeps only delivered value slices and drops the Transaction, a GC cycle, a later packet",
         "C08: mutated-after-delivery - **missed at first** (an eighth of the C08 cases run a consumer that keeps the value slices only and forces garbage collections between deliveries and at the end)"),
 'C15': ("mapper failure tolerated for schema 'mysql': table map cached without mapper table, its rows events skipped",
         "a table of schema mysql whose lookup fails, rows events for it",
         "C15: attribution"),
 'C17': ("reader splits a packet that is an exact concatenation of complete events and serves the pieces",
         "an over-long packet consisting of two or more well-formed events back to back",
         "C17: accepted-malformed, partial-delivery - **missed at first** (a third of the 'well-formed event extended' payloads are now extended by one or two further complete events instead of random bytes)"),
}
for p,(chg,needs,caught) in rows.items():
    src=f'/tmp/wt-{p}-{W}/_seeded'
    dst=f'/verif/seeded/{p}-{W}'
    os.makedirs(dst,exist_ok=True)
    for f in glob.glob(src+'/*'):
        shutil.copy(f,dst)
    meta={"id":f"{p}-{W}","property":p,"change":chg,"needs_to_manifest":needs,
     "produced_by":"fresh sub-agent given only the property text, a scratch worktree, the list of ideas already used for that property, and the request for a rare-coincidence defect",
     "confirmed":"tools/seedcheck.sh: demo passes on the original tree; patch applies; pinned suite passes with the change; demo fails with the change",
     "ran":f"tools/seedcheck.sh {p}-{W} seeded/{p}-{W} <checks> (VSIM_REPO=<scratch worktree> ./check <id> quick)",
     "caught_by":caught}
    json.dump(meta,open(dst+'/meta.json','w'),indent=1)
    print(f"| {p}-{W} | {chg} | {caught.replace(p+': ', p+' ',1)} |")
