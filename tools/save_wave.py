import json, os, shutil, glob
W='s'
rows = {
 'C01': ("length prefix of the TABLE_MAP column-metadata block read as one byte",
         "a table whose metadata block is longer than 250 bytes (>= 126 VARCHAR/CHAR/DECIMAL/BIT columns, ...)",
         "C01: count, stream-result - **missed at first** (tables of 250..600 columns were only generated in the thorough tier of C01 and in C15; they are now part of C01 quick as well)"),
 'C02': ("IsXID() also true for XA_PREPARE events with one_phase = 1",
         "an event of type 38 with a body of at least 13 bytes whose first byte is 1",
         "C02: early-delivery, grouping (through the ignorable events of types 36..38 with random bodies)"),
 'C03': ("binlog format kept in the Streamer across Stream calls (opening ROTATE of a later call stripped by the stale checksum setting)",
         "the same Streamer used again with another checksum setting in force",
         "C03: resume-suffix (through the same-Streamer rewind of wave l and the connection-level checksum of wave q)"),
 'C04': ("reader drops 'heartbeats' by testing byte 4 of the raw packet (the top byte of the timestamp); same line as C02-p",
         "an event whose timestamp has top byte 0x1b",
         "C04: lost, reordered (through the arbitrary timestamps of wave p)"),
 'C05': ("no dump request and no reader when the context is already done on entry of startDumpFromBinlogPosition; the error channel is never closed",
         "cancellation that lands during the checksum SET round trip",
         "C05: error-blocks, goroutine-leak:caller"),
 'C06': ("a QUERY decode error is ignored when the partial result has a non-empty statement",
         "a query event whose status-variable block ends inside a bounds-checked variable",
         "C06: stream-nil-on-failure (through the undecodable-event variants of wave j)"),
 'C07': ("process-wide registry of running dumps' server ids: a second Streamer with the same id is moved to id+1",
         "two Streamers with the same server id in one process whose Stream calls overlap",
         "C07: server-id - **missed at first** (a sixth of the C07 runs now have a bystander: a second Streamer with the same server id that streams from a master of its own for the whole run)"),
 'C08': ("statement text of 1 KiB or more is a zero-copy string over the per-event buffer, and query/XID buffers go through a free list",
         "a delivered statement of at least 1 KiB that the consumer keeps, two further packets",
         "C08: mutated-after-delivery - **missed at first**, two gaps: statements were never longer than ~100 bytes (one in twelve now carries 1..6 KiB of text), and the delivery-time snapshot kept Go strings by reference (it now clones every string)"),
 'C15': ("the 'same table?' test of fix 5b1215f made case-insensitive",
         "a table id taken over by a table whose name differs from the old one in letter case only",
         "C15: attribution, wrong-table - **missed at first** (a third of the id takeovers are now by a case variant of the old name)"),
 'C17': ("reader logs NextPosition() of the event it is holding once the parser has not taken it for 30 s",
         "a handler that takes 30 s or more while the reader holds a malformed packet shorter than 17 bytes",
         "C17: panic - **missed at first** (an eighth of the attempts now have one handler call that takes 35 s, 65 s or 10 min on the fake clock)"),
}
for p,(chg,needs,caught) in rows.items():
    src=f'/tmp/wt-{p}-{W}/_seeded'
    dst=f'/verif/seeded/{p}-{W}'
    os.makedirs(dst,exist_ok=True)
    for f in glob.glob(src+'/*'):
        shutil.copy(f,dst)
    meta={"id":f"{p}-{W}","property":p,"change":chg,"needs_to_manifest":needs,
     "produced_by":"fresh sub-agent given only the property text, a scratch worktree, the list of ideas already used for that property, and the request for a rare-coincidence defect",
     "confirmed":"tools/seedcheck.sh: demo passes on the original tree; patch applies; pinned suite passes with the change; demo fails with the change",
     "ran":f"tools/seedcheck.sh {p}-{W} seeded/{p}-{W} <checks> (VSIM_REPO=<scratch worktree> ./check <id> quick)",
     "caught_by":caught}
    json.dump(meta,open(dst+'/meta.json','w'),indent=1)
    print(f"| {p}-{W} | {chg} | {caught.replace(p+': ', p+' ',1)} |")
