import json, os, shutil, glob
W='l'
rows = {
 'C01': ("events of 258049..262143 bytes used in place inside the driver's cached read buffer (copy elision with a wrong threshold)",
         "one event in the 4 KiB window just under 256 KiB with buffer-referencing values, followed by more packets before delivery",
         "C01: count, panic, stream-result"),
 'C02': ("FORMAT_DESCRIPTION events after the first skipped: checksum setting frozen at the first file's",
         "a dump that crosses into a file with a different checksum setting and holds a BEGIN..COMMIT transaction there",
         "C02: early-delivery, grouping, rollback-delivered"),
 'C03': ("in-transaction flag kept in the Streamer across Stream calls (same change as C02-j, judged on labels)",
         "a Stream call that ends inside an open transaction, then the same Streamer re-pointed with SetBinlogPosition to a delivered end label that is followed by a unit without BEGIN",
         "C03: resume-suffix - **missed at first** (C03 resumed only with fresh Streamers; a third of its two-call cases now re-point the same Streamer to one of the end labels it delivered, after a call that ended at an arbitrary point or with a refused transaction)"),
 'C04': ("handler error not treated as a failure when the context is already cancelled: position moves past the refused transaction",
         "a handler that returns an error while the caller's context is cancelled, then a retry",
         "C04: resume-coordinate"),
 'C05': ("handler error equal to context.Canceled swallowed by commit; the loop waits for ctx.Done()",
         "a handler returning the value context.Canceled while Stream's own context is alive",
         "C05: stream-hang"),
 'C06': ("rows events for the unmapped table id 0x00ffffff skipped as 'dummy events' instead of failing",
         "a rows event with real rows for table id 0xffffff that no table map announced",
         "C06: stream-nil-on-failure - **missed at first** (the decode-failure unit of C06 now also comes as a rows event for a table id no table map announced: 0xffffff, 2^32-1, 2^48-1, 1, random)"),
 'C07': ("format kept in the Streamer across attempts: the artificial ROTATE that opens a dump is decoded with the previous attempt's checksum setting",
         "checksum setting of the connection differing from the one the previous attempt saw; an attempt that ends before a real ROTATE; a further attempt",
         "C07: file"),
 'C08': ("absent columns of partial row images share one cached *ColumnData per table column",
         "partial row images with the same column absent in two rows / transactions and a consumer that writes the delivered cell",
         "C08: later-delivery-corrupted, scribble-propagated"),
 'C15': ("column-count offset of a rows event taken from the post-header length instead of var_header_len",
         "a v2 rows event with extra row info (var_header_len > 2)",
         "C15: attribution, panic"),
 'C17': ("packets whose next_position lies before the resume offset dropped before the validity gate at the start of a resumed dump",
         "a malformed packet of at least 19 bytes right after the opening ROTATE/FORMAT_DESCRIPTION of a dump that starts above offset 4, with next_position within 1..resume offset",
         "C17: accepted-malformed"),
}
for p,(chg,needs,caught) in rows.items():
    src=f'/tmp/wt-{p}-{W}/_seeded'
    dst=f'/verif/seeded/{p}-{W}'
    os.makedirs(dst,exist_ok=True)
    for f in glob.glob(src+'/*'):
        shutil.copy(f,dst)
    meta={"id":f"{p}-{W}","property":p,"change":chg,"needs_to_manifest":needs,
     "produced_by":"fresh sub-agent given only the property text, a scratch worktree, the list of ideas already used for that property, and the request for a rare-coincidence defect",
     "confirmed":"tools/seedcheck.sh: demo passes on the original tree; patch applies; pinned suite passes with the change; demo fails with the change",
     "ran":f"tools/seedcheck.sh {p}-{W} seeded/{p}-{W} <checks> (VSIM_REPO=<scratch worktree> ./check <id> quick)",
     "caught_by":caught}
    json.dump(meta,open(dst+'/meta.json','w'),indent=1)
    print(f"| {p}-{W} | {chg} | {caught.replace(p+': ', p+' ',1)} |")
