import json, os, shutil, glob
W='t'
rows = {
 'C01': ("rows events with table id 0x00ffffff and STMT_END_F dropped as 'dummy' events before the table-map lookup (same idea as C15-i, judged on fidelity)",
         "a table announced with id exactly 16777215",
         "C01: count, event-count, order (through the boundary table ids of wave i)"),
 'C02': ("same dummy-rows filter, judged on grouping",
         "a table with id 16777215 inside a transaction or autocommitted",
         "C02: grouping"),
 'C03': ("status-variable block length of a QUERY event read as one byte (same slip as C02-k, judged on labels)",
         "a BEGIN / COMMIT query event with 256 or more bytes of status variables",
         "C03: content:count, end-label, resume-suffix, crash-restart-exactly-once"),
 'C04': ("a second ROTATE before the next commit is skipped (flag cleared only by a commit)",
         "a binlog file that is entered and left again without an accepted transaction in it, a transaction accepted in the next file, a retry",
         "C04: reordered - **missed at first** (the C04 family had at most two files; it now has three, so an empty middle file occurs)"),
 'C05': ("a nested BEGIN is reported through the attempt's one-slot error channel, which the reader needs for its final post",
         "a BEGIN while another transaction is open (master crashed mid-transaction), then any end of the stream",
         "C05: goroutine-leak:reader, stream-hang"),
 'C06': ("the mapper's error is only looked at when it returned no table",
         "a failing lookup that hands back a well-formed table together with its error",
         "C06: stream-nil-on-failure - **missed at first** (a third of the failing lookups now return the table description together with the error)"),
 'C07': ("ROTATE file names rebuilt with bytes.Map: bytes that are not valid UTF-8 become U+FFFD",
         "a binlog base name that is not valid UTF-8 (latin1), a ROTATE, another attempt",
         "C07: file"),
 'C08': ("rows-event buffers of tables with only by-value columns recycled; the 'all by-value' flag is not refreshed when the id is re-announced with other column types",
         "a table first announced with by-value columns only, re-announced under the same id and name with a by-reference type, a retained value, a later packet",
         "C08: mutated-after-delivery - **missed at first** (re-announcements with other column types were not part of the C08 family; half of its histories now have them)"),
 'C15': ("a DDL query evicts every cached table whose name appears as a word in its text",
         "DDL text that contains the name of a cached table, then rows for that id without a new table map",
         "C15: mapper-call"),
 'C17': ("validity gate rejects events of 2^24 bytes or more",
         "a well-formed event of at least 16 MiB (two wire fragments)",
         "C17: rejected-well-formed (through the exact-size unit around 2^24-1 and the rule of wave j)"),
}
for p,(chg,needs,caught) in rows.items():
    src=f'/tmp/wt-{p}-{W}/_seeded'
    dst=f'/verif/seeded/{p}-{W}'
    os.makedirs(dst,exist_ok=True)
    for f in glob.glob(src+'/*'):
        shutil.copy(f,dst)
    meta={"id":f"{p}-{W}","property":p,"change":chg,"needs_to_manifest":needs,
     "produced_by":"fresh sub-agent given only the property text, a scratch worktree, the list of ideas already used for that property, and the request for a rare-coincidence defect",
     "confirmed":"tools/seedcheck.sh: demo passes on the original tree; patch applies; pinned suite passes with the change; demo fails with the change",
     "ran":f"tools/seedcheck.sh {p}-{W} seeded/{p}-{W} <checks> (VSIM_REPO=<scratch worktree> ./check <id> quick)",
     "caught_by":caught}
    json.dump(meta,open(dst+'/meta.json','w'),indent=1)
    print(f"| {p}-{W} | {chg} | {caught.replace(p+': ', p+' ',1)} |")
