import json, os, shutil, glob
W='j'
rows = {
 'C01': ("32-bit integers stored in place in a large-format JSON container always printed as unsigned",
         "a JSON document of 64 KiB or more (large format) with a direct member between -2^31 and -32769",
         "C01: value:type245"),
 'C02': ("the in-transaction flag became a Streamer field that is not reset when a new Stream call starts",
         "an attempt that ends inside a transaction (handler refuses a BEGIN..XID transaction and the application steps over it with SetBinlogPosition) followed by an autocommitted unit",
         "C02: grouping; C04: lost - **missed at first** (the application that steps over a refused transaction with SetBinlogPosition(refused.NextPosition) is now part of the C02 and fault-family scenarios)"),
 'C03': ("events with next_position 0 skipped as 'fabricated by the dump thread', including the fake rotate that announces a new file",
         "a switch to the next binlog file that is not announced by a real ROTATE event (file ended by STOP or a crash)",
         "C03: chain, crash-restart-exactly-once"),
 'C04': ("ROTATE decoded straight into the resume position, which is zeroed when the decode fails",
         "an attempt that ends on a ROTATE event which passes the validity gate but has fewer than 8 body bytes",
         "C04: resume-coordinate - **missed at first** (undecodable events of known types - short ROTATE, QUERY with overflowing schema name or status variables, FORMAT_DESCRIPTION of version 3 or with a 10-byte header - are now injected next to the unsupported event types)"),
 'C05': ("reader context derived from the caller's only if the caller's context can be cancelled",
         "Stream(context.Background(), ...) ended by a parser-side cause while the reader holds an event",
         "C05: error-blocks, goroutine-leak:reader - **missed at first** (a sixth of the attempts with a non-cancel cause now pass context.Background(); if the cause never happens the master closes the connection)"),
 'C06': ("handler error on the empty transaction of a ROLLBACK ignored",
         "a BEGIN..ROLLBACK unit whose (empty) delivery the handler refuses",
         "C06: stream-nil-on-failure - **missed at first** (rolled-back transactions were only generated for C02; they are now part of every family)"),
 'C07': ("position returned by the parser stored only if the handler accepted a transaction in that attempt",
         "an attempt that accepts nothing, passes a real ROTATE and fails; the next attempt asks for <old file>:<end> instead of <new file>:4",
         "judged NOT a violation: the request carries the stored position, and the stale position is equivalent (no committed transaction lies between the two coordinates; the master answers both with the same stream). No check alarms (exit 0), which is the right answer; kept as a benign case"),
 'C08': ("one-entry memo of the last formatted TIMESTAMP second whose miss path hands out the memo's own buffer",
         "two TIMESTAMP values with the same second in different transactions and a consumer that overwrites the first",
         "C08: later-delivery-corrupted"),
 'C15': ("table-id map recreated at every FORMAT_DESCRIPTION event",
         "a rows event after a binlog file switch that relies on a table map announced before the switch",
         "C15: mapper-call"),
 'C17': ("validity gate also rejects events whose next_position lies within 0..3 of event_length",
         "a well-formed event with event_length <= next_position <= event_length+3",
         "C17: rejected-well-formed - **missed at first** (ignorable events of unknown type now carry arbitrary next_position values, in particular values next to their own length, and C17 judges attempts in which nothing malformed was delivered: they must not end with an error)"),
}
for p,(chg,needs,caught) in rows.items():
    src=f'/tmp/wt-{p}-{W}/_seeded'
    dst=f'/verif/seeded/{p}-{W}'
    os.makedirs(dst,exist_ok=True)
    for f in glob.glob(src+'/*'):
        shutil.copy(f,dst)
    meta={"id":f"{p}-{W}","property":p,"change":chg,"needs_to_manifest":needs,
     "produced_by":"fresh sub-agent given only the property text, a scratch worktree, the list of ideas already used for that property, and the request for a rare-coincidence defect",
     "confirmed":"tools/seedcheck.sh: demo passes on the original tree; patch applies; pinned suite passes with the change; demo fails with the change",
     "ran":f"tools/seedcheck.sh {p}-{W} seeded/{p}-{W} <checks> (VSIM_REPO=<scratch worktree> ./check <id> quick)",
     "caught_by":caught}
    json.dump(meta,open(dst+'/meta.json','w'),indent=1)
    print(f"| {p}-{W} | {chg} | {caught.replace(p+': ', p+' ',1)} |")
