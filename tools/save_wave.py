import json, os, shutil, glob
W='w'
rows = {
 'C01': ("JSON nesting-depth guard one level too strict (document starts at depth 1, entries refused at depth >= 100)",
         "a JSON value nested exactly 100 containers deep whose innermost container holds a value stored by offset",
         "C01: count, stream-result - **missed at first** (generated documents were at most four levels deep; one JSON value in forty is now a chain of 98..100 containers, or any depth between 5 and 100)"),
 'C02': ("the position returned by the parser is stored only if !pos.IsZero() (true for an empty file name)",
         "a dump started with an empty file name, an accepted transaction, another Stream call",
         "C02: grouping (a second delivery of an accepted transaction has no commit point left)"),
 'C03': ("a BEGIN that arrives while events of an unfinished transaction are buffered commits them instead of dropping them",
         "a binlog file that ends inside a transaction group (master crash), the next file opening with BEGIN",
         "C03: resume-suffix, crash-restart-exactly-once:content / reordered"),
 'C04': ("XA START / XA BEGIN classified as BEGIN, XA COMMIT as COMMIT, XA ROLLBACK as ROLLBACK",
         "a two-phase XA group (XA START .. XA END, XA PREPARE) followed by a BEGIN",
         "C04: lost, reordered"),
 'C05': ("new reader exit (context already done after a successful read) posts its error without closing the error channel",
         "a cancellation while the reader waits for the network and the handler is busy, one more packet, two Error() calls",
         "C05: error-blocks"),
 'C06': ("table-lookup failures for tables of the server schemas (mysql, sys, information_schema, performance_schema) are logged and their rows skipped",
         "a table map in one of those schemas and a failing mapper",
         "C06: stream-nil-on-failure"),
 'C07': ("Stream first returns the uncollected error of the previous attempt, before dialling",
         "an attempt whose reader ended with an error, no Error() call, another Stream call",
         "C07: dump-count - **missed at first** (new clause of the rule: a Stream call that nothing disturbed and that comes back without opening a connection)"),
 'C08': ("MarshalJSON prints BIT columns with strconv.AppendUint(b[:0], ...) on the delivered slice",
         "a BIT value and a consumer that encodes the delivered transaction with json.Marshal",
         "C08: mutated-after-delivery - **missed at first** (one C08 run in five now has a consumer that calls json.Marshal on every delivery; the transaction is compared with its delivery-time snapshot right after)"),
 'C15': ("the same-table test of the table-id cache compares the new table map with the name the mapper answered under",
         "a mapper that answers under a canonical name, and the cached id taken over by the table that bears that name",
         "C15: attribution, mapper-call, name-by-ordinal - **missed at first** (one C15 history in five now has a mapper that answers half of its tables under a name of its own - delivered events carry that name - and id takeovers by the table literally named so)"),
 'C17': ("the resume position is stored only if it is not 'older' than the start position, file names compared as strings",
         "a rotation from bin.999999 to bin.1000000 (or any newer file whose name sorts lower), then a malformed packet",
         "C17: resume-coordinate"),
}
for p,(chg,needs,caught) in rows.items():
    src=f'/tmp/wt-{p}-{W}/_seeded'
    dst=f'/verif/seeded/{p}-{W}'
    os.makedirs(dst,exist_ok=True)
    for f in glob.glob(src+'/*'):
        shutil.copy(f,dst)
    meta={"id":f"{p}-{W}","property":p,"change":chg,"needs_to_manifest":needs,
     "produced_by":"fresh sub-agent given only the property text, a scratch worktree, the list of ideas already used for that property, and the request for a rare-coincidence defect",
     "confirmed":"tools/seedcheck.sh: demo passes on the original tree; patch applies; pinned suite passes with the change; demo fails with the change",
     "ran":f"tools/seedcheck.sh {p}-{W} seeded/{p}-{W} <checks> (VSIM_REPO=<scratch worktree> ./check <id> quick)",
     "caught_by":caught}
    json.dump(meta,open(dst+'/meta.json','w'),indent=1)
    print(f"| {p}-{W} | {chg} | {caught.replace(p+': ', p+' ',1)} |")
