import json, os, shutil, glob
W='v'
rows = {
 'C01': ("shared clock printer for JSON TIME and DATETIME takes the DATETIME hour mask (5 bits)",
         "a JSON document holding an opaque TIME scalar of 32 hours or more",
         "C01: value:type245 - **missed at first** (the JSON generator had no opaque TIME scalars; it now emits them, signed, up to 838 hours, with microseconds)"),
 'C02': ("autocommitted rows events are committed only when their flags carry STMT_END_F",
         "a row change outside BEGIN..COMMIT whose rows-event flags have bit 0 clear",
         "C02: grouping - **missed at first** (flags words other than 1 were only written inside transactions; one autocommitted rows event in six now carries a random flags word)"),
 'C03': ("QUERY events with a non-zero error code are skipped before their category is looked at",
         "a stand-alone statement logged with an error code",
         "C03: content:count, end-label, resume-suffix, crash-restart-exactly-once"),
 'C04': ("BEGIN / COMMIT recognised by bytes.HasSuffix on the event buffer",
         "a DDL statement whose text ends in the bytes BEGIN or COMMIT",
         "C04: lost, reordered"),
 'C05': ("reader context detached from the caller's + a non-blocking receive in front of the parser's select: the cancellation is only looked at when no event is ready",
         "a cancellation while the master is ahead of the parser (a backlog in the socket buffer) and a parser slower than the reader",
         "C05: cancel-ignored - **missed at first**: new rule (more than 40 handler calls after the cancellation fired; the unchanged code leaves with probability 1/2 or more per event) and a backlog family (one fault case in sixteen: 100..150 small transactions, whole stream buffered at once, early cancel, every parser log call a scheduling point so that the reader always has the next event parked)"),
 'C06': ("the skip of the dump's opening ROTATE moved in front of the validity gate",
         "a malformed first event whose type byte says ROTATE",
         "C06: stream-nil-on-failure"),
 'C07': ("SetBinlogPosition writes a start slot that the resume slot shadows once an attempt has run",
         "SetBinlogPosition between two Stream calls of one Streamer",
         "C07: offset"),
 'C08': ("rows-event buffers recycled when no present column decodes by reference, the column masks being uint64",
         "a table of more than 64 columns whose by-reference columns all sit behind the 64th, a retained value, a following packet that fits the buffer",
         "C08: later-delivery-corrupted, scribble-propagated - **missed at first** (C08 had no wide tables; one table in four now has 66..600 columns, half of them with numbers and dates in front and the by-reference columns behind the 64th)"),
 'C15': ("a table map with a column type the parser has no decoder for is skipped instead of ending the stream",
         "such a table map for a table id that is already cached, then rows for it",
         "C15: mismatch-accepted - **missed at first** (the re-announcement poison unit now also comes with an unchanged shape and one column announced as type 20 / 242 / 243 / 244; the rows parse under the previous map)"),
 'C17': ("on the error path the parser's position is only stored if !pos.IsZero(), which is also true for an empty file name",
         "a dump started with an empty file name, accepted transactions, then a malformed packet",
         "C17: resume-coordinate"),
}
for p,(chg,needs,caught) in rows.items():
    src=f'/tmp/wt-{p}-{W}/_seeded'
    dst=f'/verif/seeded/{p}-{W}'
    os.makedirs(dst,exist_ok=True)
    for f in glob.glob(src+'/*'):
        shutil.copy(f,dst)
    meta={"id":f"{p}-{W}","property":p,"change":chg,"needs_to_manifest":needs,
     "produced_by":"fresh sub-agent given only the property text, a scratch worktree, the list of ideas already used for that property, and the request for a rare-coincidence defect",
     "confirmed":"tools/seedcheck.sh: demo passes on the original tree; patch applies; pinned suite passes with the change; demo fails with the change",
     "ran":f"tools/seedcheck.sh {p}-{W} seeded/{p}-{W} <checks> (VSIM_REPO=<scratch worktree> ./check <id> quick)",
     "caught_by":caught}
    json.dump(meta,open(dst+'/meta.json','w'),indent=1)
    print(f"| {p}-{W} | {chg} | {caught.replace(p+': ', p+' ',1)} |")
