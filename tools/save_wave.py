import json, os, shutil, glob
W='n'
rows = {
 'C01': ("Bitmap.BitCount counts the set padding bits of the last byte (same line as C15-k, judged on values)",
         "a partial row image whose columns-present bitmap has its unused bits set to 1",
         "C01: value:*, row-count, count, panic (caught through the padding-bit generator added in wave k)"),
 'C02': ("an XID whose xid equals the last accepted XID-closed transaction's is treated as a replay: pending changes dropped",
         "two XID-closed transactions in one attempt with the same non-zero xid (a master restarted between them)",
         "C02: grouping - **missed at first** (xids were random 64-bit values; they now repeat, count up or are 0)"),
 'C03': ("the parser's running position read back from the Transaction it handed to the handler",
         "a handler that writes the label fields of the delivered Transaction before returning",
         "C03: chain, resume-suffix, crash-restart-exactly-once - **missed at first** (the overwriting consumer, which also rewrites file names and offsets of both labels, now runs in a sixth of the C03 cases too)"),
 'C04': ("events whose header server_id equals the replica's own id skipped",
         "a committed transaction stamped with the replica's own server id",
         "C04: lost, reordered, resume-coordinate"),
 'C05': ("deferred cleanup replaced by an explicit stop() on ordinary return paths plus a recover() that turns a callback panic into a returned error",
         "a handler or table mapper that panics",
         "C05: error-blocks, goroutine-leak:*, socket-not-closed - **missed at first** (a fifth of the failing handlers / mappers of C05 now panic; the simulated application recovers around its Stream call, and the usual clean-up clauses are judged)"),
 'C06': ("dump packets whose first byte is neither 0x00 nor 0xff treated as the master's EOF",
         "a packet that starts with a byte other than 0x00 / 0xfe / 0xff",
         "C06: stream-nil-on-failure - **missed at first** (a sixth of the malformed packets now start with a random status byte 0x01..0xfd instead of 0x00)"),
 'C07': ("re-dial after a failed COM_BINLOG_DUMP write without repeating the per-session checksum SET",
         "connection dies between the master's OK for the SET and the dump command; the re-dial succeeds",
         "C07: no-checksum-set"),
 'C08': ("rows-event buffers of >= 1 KiB recycled unless the table has string/blob/geometry columns (BIT forgotten)",
         "a table whose only by-reference column type is BIT, a rows event of 1 KiB or more, a retained BIT value",
         "C08: later-delivery-corrupted, mutated-after-delivery, scribble-propagated - **missed at first** (half of the many-rows histories now use numeric + BIT tables)"),
 'C15': ("table-map cache keyed by (header server_id, table id)",
         "events of one table id carrying different server ids",
         "C15: mapper-call"),
 'C17': ("progress log line on every 10000th packet reads header fields before the validity gate",
         "a malformed packet shorter than 17 bytes that is exactly the 10000th packet of a dump",
         "C17: panic - **missed at first** (one C17 history in 200 now starts with 1000..10000 tiny ignorable events and the malformed packet is placed on the round ordinal)"),
}
for p,(chg,needs,caught) in rows.items():
    src=f'/tmp/wt-{p}-{W}/_seeded'
    dst=f'/verif/seeded/{p}-{W}'
    os.makedirs(dst,exist_ok=True)
    for f in glob.glob(src+'/*'):
        shutil.copy(f,dst)
    meta={"id":f"{p}-{W}","property":p,"change":chg,"needs_to_manifest":needs,
     "produced_by":"fresh sub-agent given only the property text, a scratch worktree, the list of ideas already used for that property, and the request for a rare-coincidence defect",
     "confirmed":"tools/seedcheck.sh: demo passes on the original tree; patch applies; pinned suite passes with the change; demo fails with the change",
     "ran":f"tools/seedcheck.sh {p}-{W} seeded/{p}-{W} <checks> (VSIM_REPO=<scratch worktree> ./check <id> quick)",
     "caught_by":caught}
    json.dump(meta,open(dst+'/meta.json','w'),indent=1)
    print(f"| {p}-{W} | {chg} | {caught.replace(p+': ', p+' ',1)} |")
