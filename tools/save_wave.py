import json, os, shutil, glob
W='p'
rows = {
 'C01': ("table cache keyed by the table id narrowed to 32 bits",
         "two tables in one dump whose 6-byte ids agree in the low 32 bits",
         "C01: count, event-table, panic, stream-result (through the confusable / boundary table ids of waves h and i)"),
 'C02': ("reader drops 'heartbeats' by looking at byte 4 of the raw packet (the top byte of the event timestamp) instead of the type byte",
         "any event whose header timestamp has top byte 0x1b (a session running under SET TIMESTAMP in 1984)",
         "C02: grouping - **missed at first** (timestamps only counted up from ~2017; a third of the histories now give one event in ten an arbitrary 32-bit timestamp)"),
 'C03': ("state reset in commit() guarded by tranEvents != nil: the in-transaction flag stays set after a ROLLBACK",
         "a rolled-back transaction directly followed by a unit that commits without BEGIN",
         "C03: content:count, resume-suffix, crash-restart-exactly-once"),
 'C04': ("the first commit of an attempt is skipped when it ends at the offset the attempt started from (file names not compared)",
         "an attempt that starts at the last commit of file A, rotates into file B, and B's first transaction ends at that same offset",
         "C04: lost, resume-coordinate; C03 too - **missed at first** (a quarter of the multi-file histories now pad a later file so that its first commit ends at exactly the offset of the previous file's last commit)"),
 'C05': ("deferred cleanup waits for the reader by draining the event channel, which is nil when the dump request could not be sent",
         "connection lost between the OK for the checksum SET and the write of COM_BINLOG_DUMP",
         "C05: stream-hang"),
 'C06': ("after a parser failure Stream returns Error() instead when the reader has already posted its exit reason",
         "a handler / mapper / decode failure on the last unit with the master's EOF (or a cancel) already read by the reader",
         "C06: stream-nil-on-failure (the rule of wave k: a returned handler error must surface whatever overlaps)"),
 'C07': ("SetBinlogPosition trims white space from the file name; Stream stores resume positions through the same setter",
         "a binlog file name that begins or ends with white space",
         "C07: file"),
 'C08': ("per-event copies carved out of 256 KiB blocks; an event that fits a block exactly leaves the offset counter on a multiple of the block size",
         "small events summing to exactly 262144 bytes at an event boundary, a retained value from the start of the block, one more packet",
         "C08: mutated-after-delivery"),
 'C15': ("mapper answers memoised per schema + '.' + table",
         "two tables whose dotted names coincide (schema a.b / table c and schema a / table b.c)",
         "C15: mapper-call (through the odd identifiers of wave i)"),
 'C17': ("packets of 23 bytes or more whose last four bytes are the CRC32 of the rest skip the validity test on checksummed streams",
         "a malformed packet with a matching CRC32 trailer",
         "C17: accepted-malformed, panic, partial-delivery - **missed at first** (a fifth of the malformed packets of 23 bytes or more now end in the correct CRC32 of their own bytes)"),
}
for p,(chg,needs,caught) in rows.items():
    src=f'/tmp/wt-{p}-{W}/_seeded'
    dst=f'/verif/seeded/{p}-{W}'
    os.makedirs(dst,exist_ok=True)
    for f in glob.glob(src+'/*'):
        shutil.copy(f,dst)
    meta={"id":f"{p}-{W}","property":p,"change":chg,"needs_to_manifest":needs,
     "produced_by":"fresh sub-agent given only the property text, a scratch worktree, the list of ideas already used for that property, and the request for a rare-coincidence defect",
     "confirmed":"tools/seedcheck.sh: demo passes on the original tree; patch applies; pinned suite passes with the change; demo fails with the change",
     "ran":f"tools/seedcheck.sh {p}-{W} seeded/{p}-{W} <checks> (VSIM_REPO=<scratch worktree> ./check <id> quick)",
     "caught_by":caught}
    json.dump(meta,open(dst+'/meta.json','w'),indent=1)
    print(f"| {p}-{W} | {chg} | {caught.replace(p+': ', p+' ',1)} |")
