import json, os, shutil, glob
W='q'
rows = {
 'C01': ("events whose header server_id equals the replica's own id skipped (third placement of this filter, after the checksum strip)",
         "a committed transaction stamped with the replica's own server id",
         "C01: count, order"),
 'C02': ("DDL / DML query events whose error_code is 1053 / 1184 / 1317 / 1927 ('statement was killed') skipped",
         "a statement logged with one of those four error codes",
         "C02: grouping (error codes of query events are now drawn half of the time from the codes a master logs for killed / failed statements)"),
 'C03': ("statement classified by the word behind a leading '/*' (meant for '/*!' version comments only)",
         "a comment-led statement inside a transaction whose comment starts with commit / rollback",
         "C03: end-label, resume-suffix, crash-restart-exactly-once - **missed at first** (comment-led statements were excluded because classifying the statement behind the comment is a legitimate choice; they are now generated inside transactions as *optional* changes: present or absent, never a commit point)"),
 'C04': ("file name taken from the dump's opening artificial ROTATE, checksum-stripped by the first FORMAT_DESCRIPTION's algorithm",
         "binlog_checksum changed on the master after the start file was written: the opening ROTATE follows the connection's setting, the file's FORMAT_DESCRIPTION the old one",
         "C04: reordered, resume-coordinate - **missed at first** (the simulated dump thread built the opening ROTATE with the start file's checksum setting; it now also uses the newest file's setting or the opposite one)"),
 'C05': ("after a failed checksum SET the connection is closed only if the error is a MySQL error packet",
         "the SET answered by a complete reply with a wrong sequence id or a malformed body",
         "C05: goroutine-leak:watcher, socket-not-closed - **missed at first** (the set-error fault only sent an ERR packet; it now also sends an OK with a wrong sequence id or a malformed result-set header)"),
 'C06': ("per-row column-count guard compares against the table map instead of the mapper's table",
         "a table id re-announced with fewer columns (id reuse after a master restart), then rows for it",
         "C06: stream-nil-on-failure - **missed at first** (the column-count-change unit was C15-only; it is now part of the C06 family, judged when its last rows event has been delivered)"),
 'C07': ("Error() increments the configured server id when the master's error says a replica with the same id has connected",
         "ERR 1236 with the 'slave with the same server_uuid' text, Error() called, another attempt",
         "C07: server-id - **missed at first** (the real texts of the master's 1236 errors are now among the ERR messages, errno 1236 is drawn more often)"),
 'C08': ("deferred clean-up nils the pending-events slice; on a handler error that slice is the refused Transaction's Events",
         "a handler that keeps the transaction it refuses",
         "C08: mutated-after-delivery - **missed at first** (a fifth of the C08 cases now start with a call in which the handler refuses - and keeps - one transaction)"),
 'C15': ("'last looked-up table' shortcut in front of the table-id lookup compares only the low 32 bits",
         "rows events back to back for two 6-byte ids that agree in their low 32 bits",
         "C15: attribution, wrong-table, panic"),
 'C17': ("before the first FORMAT_DESCRIPTION the gate only requires 13 header bytes and a consistent length",
         "a 13..18-byte packet with a consistent length field and type ROTATE / FORMAT_DESCRIPTION at packet index 0 or 1",
         "C17: accepted-malformed, panic - **missed at first** (a tenth of the malformed packets are now 13..18 bytes long with a correct length field and an early-event type)"),
}
for p,(chg,needs,caught) in rows.items():
    src=f'/tmp/wt-{p}-{W}/_seeded'
    dst=f'/verif/seeded/{p}-{W}'
    os.makedirs(dst,exist_ok=True)
    for f in glob.glob(src+'/*'):
        shutil.copy(f,dst)
    meta={"id":f"{p}-{W}","property":p,"change":chg,"needs_to_manifest":needs,
     "produced_by":"fresh sub-agent given only the property text, a scratch worktree, the list of ideas already used for that property, and the request for a rare-coincidence defect",
     "confirmed":"tools/seedcheck.sh: demo passes on the original tree; patch applies; pinned suite passes with the change; demo fails with the change",
     "ran":f"tools/seedcheck.sh {p}-{W} seeded/{p}-{W} <checks> (VSIM_REPO=<scratch worktree> ./check <id> quick)",
     "caught_by":caught}
    json.dump(meta,open(dst+'/meta.json','w'),indent=1)
    print(f"| {p}-{W} | {chg} | {caught.replace(p+': ', p+' ',1)} |")
