import json, os, shutil, glob
W='o'
rows = {
 'C01': ("transactions without buffered changes that end in a COMMIT / ROLLBACK query dropped (position advanced, handler not called)",
         "BEGIN directly followed by COMMIT, or a rolled-back transaction",
         "C01: count, order (through the rolled-back units added to every family in wave j)"),
 'C02': ("Q_FLAGS2 decoded; a DDL / statement DML with OPTION_NOT_AUTOCOMMIT set does not commit by itself",
         "an autocommitted statement whose status variables carry flags2 with bit 0x80000",
         "C02: grouping"),
 'C03': ("query events whose default database is a server schema skipped, BEGIN/COMMIT included (same filter as C02-m, judged on labels)",
         "a transaction logged by a session with default database mysql/sys/...",
         "C03: content:count, end-label, resume-suffix, crash-restart-exactly-once"),
 'C04': ("resume position read back from the Transaction handed to the handler (same as C03-n, judged on retries)",
         "a consumer that rewrites the delivered Transaction, an accepted transaction, then a retry",
         "C04: reordered, resume-coordinate"),
 'C05': ("table lookup retried in a loop that ignores the context while the mapper's error is a timeout-like net.Error (context.DeadlineExceeded qualifies)",
         "a mapper that fails with context.DeadlineExceeded / a net timeout, then cancellation",
         "C05: stream-hang"),
 'C06': ("failed lookup for a table name that was resolved earlier in the attempt only logged, earlier definition reused",
         "one table announced under two table ids; the mapper succeeds on the first lookup and fails on the second",
         "C06: stream-nil-on-failure - **missed at first** (the same table under a second table id is now generated in the C06 family too)"),
 'C07': ("ROTATE decoded straight into the running position (same line as C04-j), judged on the next dump request",
         "an undecodable ROTATE, then another attempt",
         "C07: offset (through the undecodable-event variants added in wave j)"),
 'C08': ("buffers of a rolled-back transaction's rows events handed back to the reader; the list is not cleared at commit",
         "a delivered transaction, then a ROLLBACK query that no BEGIN precedes, then a later packet",
         "C08: mutated-after-delivery - **missed at first** (a fifth of the rolled-back units are now a bare ROLLBACK without BEGIN)"),
 'C15': ("schema and table name lengths of a table map read as length-encoded integers",
         "a schema or table name of exactly 252, 253 or 254 bytes",
         "C15: attribution - **missed at first** (names of 1, 250..255 bytes are now generated; the property quantifies over 1..255)"),
 'C17': ("reader drops 'artificial filler' packets (flag 0x20, next_position 0, not ROTATE/FDE) before the validity gate",
         "a malformed packet of 19 bytes or more whose header says next_position 0 and carries the artificial flag",
         "C17: accepted-malformed - **missed at first** (a sixth of the malformed packets now get next_position 0 and the artificial / ignorable / in-use flag bits, some also timestamp 0)"),
}
for p,(chg,needs,caught) in rows.items():
    src=f'/tmp/wt-{p}-{W}/_seeded'
    dst=f'/verif/seeded/{p}-{W}'
    os.makedirs(dst,exist_ok=True)
    for f in glob.glob(src+'/*'):
        shutil.copy(f,dst)
    meta={"id":f"{p}-{W}","property":p,"change":chg,"needs_to_manifest":needs,
     "produced_by":"fresh sub-agent given only the property text, a scratch worktree, the list of ideas already used for that property, and the request for a rare-coincidence defect",
     "confirmed":"tools/seedcheck.sh: demo passes on the original tree; patch applies; pinned suite passes with the change; demo fails with the change",
     "ran":f"tools/seedcheck.sh {p}-{W} seeded/{p}-{W} <checks> (VSIM_REPO=<scratch worktree> ./check <id> quick)",
     "caught_by":caught}
    json.dump(meta,open(dst+'/meta.json','w'),indent=1)
    print(f"| {p}-{W} | {chg} | {caught.replace(p+': ', p+' ',1)} |")
