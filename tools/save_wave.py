import json, os, shutil, glob
W='r'
rows = {
 'C01': ("per-dump table cache moved into the Streamer (kept across Stream calls)",
         "a second Stream call in which a table id seen before belongs to another table",
         "neutralised by fix 5b1215f: on the fixed tree a re-announcement under another name is looked up again and the agent's demo passes with the change; on the pre-fix tree the demo fails. (C15 `mapper-call` still notices the missing lookups of the second call.) The seed led to the discovery of the defect fixed by 5b1215f - see 14.1"),
 'C02': ("events whose header server_id equals the replica's id skipped (fourth placement of this filter)",
         "a unit stamped with the replica's own server id",
         "C02: grouping, rollback-delivered"),
 'C03': ("memory bound: an open transaction of 4096 events is committed at the current event and re-opened",
         "one transaction with at least 4096 changes",
         "C03: resume-suffix, crash-restart-exactly-once - **missed at first** (one history in 400 now holds a bulk transaction of 1030 or 4100 single-row statements on a narrow table of its own)"),
 'C04': ("memory bound: after 1024 collected events the partial transaction is handed to the handler and the position advanced",
         "a transaction of at least 1024 changes, an attempt that ends inside it, a retry",
         "C04: reordered - **missed at first** (same bulk transactions)"),
 'C05': ("'nothing received for 10 minutes' timer re-armed with Stop / drain / Reset: after it has fired once the drain blocks for ever",
         "a master that is silent for more than 10 minutes and then sends one more event",
         "C05: stream-hang - **missed at first** (an eighth of the attempts now contain a quiet period of 40 s, 11 min, 1 h or 25 h on the fake clock in the middle of the dump)"),
 'C06': ("before-image decode error of an UPDATE row overwritten by the after-image call before it is checked",
         "an UPDATE whose before image holds a value the decoder rejects while the after image is fine",
         "C06: stream-nil-on-failure - **missed at first** (the undecodable JSON value was only ever inserted; it now also sits in a DELETE image, in the before image and in the after image of an UPDATE)"),
 'C07': ("Stream returns before sending the dump request when the caller's context ended during the checksum SET round trip",
         "cancellation while the master holds back its OK for the SET",
         "judged NOT a violation: a Stream call whose caller has already cancelled need not ask for a dump (a cancel that lands during the handshake has the same effect on the unchanged tree). No check alarms, which is the right answer; kept as a benign case"),
 'C08': ("packet copied only if the driver's slice has spare capacity (cap == len exactly when the packet ends at the end of the driver's read buffer)",
         "a rows packet that ends exactly at the end of the driver's buffer, a retained value, a later read",
         "C08: later-delivery-corrupted, mutated-after-delivery, panic"),
 'C15': ("length prefix of long CHAR columns chosen by a bit test that is only right for 768..1023 bytes",
         "a CHAR column of 256..767 bytes with a non-NULL value",
         "C15: attribution, panic"),
 'C17': ("a truncated packet is swallowed (nil) when the reader has already posted an error",
         "a truncated packet that is the last one before an EOF / ERR / connection loss, with the reader ahead of the parser",
         "C17: accepted-malformed - **missed at first**, two changes were needed: the master can now end the stream (EOF packet, ERR packet, close) right behind the malformed packet, and every second worker process runs with GOMAXPROCS=1, where a goroutine that hands an event over an unbuffered channel runs on until it blocks - the reader gets ahead of the parser inside one simulation step"),
}
for p,(chg,needs,caught) in rows.items():
    src=f'/tmp/wt-{p}-{W}/_seeded'
    dst=f'/verif/seeded/{p}-{W}'
    os.makedirs(dst,exist_ok=True)
    for f in glob.glob(src+'/*'):
        shutil.copy(f,dst)
    meta={"id":f"{p}-{W}","property":p,"change":chg,"needs_to_manifest":needs,
     "produced_by":"fresh sub-agent given only the property text, a scratch worktree, the list of ideas already used for that property, and the request for a rare-coincidence defect",
     "confirmed":"tools/seedcheck.sh: demo passes on the original tree; patch applies; pinned suite passes with the change; demo fails with the change",
     "ran":f"tools/seedcheck.sh {p}-{W} seeded/{p}-{W} <checks> (VSIM_REPO=<scratch worktree> ./check <id> quick)",
     "caught_by":caught}
    json.dump(meta,open(dst+'/meta.json','w'),indent=1)
    print(f"| {p}-{W} | {chg} | {caught.replace(p+': ', p+' ',1)} |")
