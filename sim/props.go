package verifsim

// Per-property cases: how a case is generated from a tape, which runs it
// executes and which oracles judge it.

import (
	"fmt"
	"hash/fnv"
	"strings"
	"testing"
	"time"
)

// EnumSpec pins the fault of an enumerated (swept) case.
type EnumSpec struct {
	Kind   int `json:"kind"`
	At     int `json:"at"`
	Pacing int `json:"pacing"`
	When   int `json:"when"`
	Stall  int `json:"stall"`
	Code   int `json:"errno,omitempty"` // ERR packet sweep: the master's error number
}

// CaseSpec identifies one case: a pure function of these fields and the code.
type CaseSpec struct {
	Prop    string              `json:"property"`
	Tier    string              `json:"tier"`
	Seed    uint64              `json:"seed"`
	Enum    *EnumSpec           `json:"enum,omitempty"`
	Forced  []int               `json:"forced_units,omitempty"`
	Zone    int                 `json:"zone"`              // index into simZones: the process's local time zone
	Streams map[string][]uint64 `json:"streams,omitempty"` // replay: recorded tape
}

// CaseResult is what one case produced.
type CaseResult struct {
	Spec       CaseSpec
	Tape       *Tape
	Scenario   *Scenario
	Runs       []*Run
	Violations []Violation
	Nontrivial bool
	Hash       uint64
	Harness    string
	Stats      CaseStats
}

// CaseStats are the per-case measurements merged into the evidence.
type CaseStats struct {
	Runs       int
	Steps      int
	SimTime    time.Duration
	Attempts   int
	Deliveries int
	Faults     map[string]int
	Probes     map[string]int
	StateActs  map[string]int
}

func (cs *CaseStats) probe(name string) {
	if cs.Probes == nil {
		cs.Probes = map[string]int{}
	}
	cs.Probes[name]++
}

func (spec *CaseSpec) tape() *Tape {
	if spec.Streams != nil {
		return ReplayTape(spec.Seed, spec.Streams)
	}
	return NewTape(spec.Seed)
}

func faultOpts(prop string, thorough bool) (GenOpts, faultEmphasis) {
	o := smallOpts()
	em := faultEmphasis{MaxFaults: 3}
	switch prop {
	case "C04":
		em.ConnPhase = 8
		em.FreshChance = 0
		o.MaxFiles = 3      // (two rotations: a file can be entered and left without a transaction in it)
		o.BigOffsets = true // one history in four: an old file whose offsets lie near 2^24, 2^31 or 2^32 (seed C04-x)
		o.UnitWeights[uRotate] = 2
	case "C05":
		em.ConnPhase = 4
		em.Timeout = true
		em.StartHigh = true
		em.EnvPanic = true
		em.Backlog = true
	case "C06":
		em.ConnPhase = 5
		em.Timeout = true
		o.PoisonJSON = true
		o.TableIDReuse = true
		o.CountChange = true
		em.Kinds = []stopKind{stopFIN, stopRST, stopShortPacket, stopBadSeq, stopERR, stopERR, stopERR, stopEOF, stopCancel,
			stopHandlerErr, stopMapperErr, stopMapperMiscount, stopUnsupportedEvent, stopInvalidEvent}
	case "C07":
		em.Bystander = true
		em.EnvPanic = true
		em.ConnPhase = 10
		em.MaxFaults = 3
		o.BigOffsets = true
		o.OddNames = true
		o.MaxFiles = 3
		o.UnitWeights[uRotate] = 3
	case "C17":
		em.Kinds = []stopKind{stopInvalidEvent}
		em.MaxFaults = 2
		em.GateAccepted = true
		o.LongIdle = 500
		if thorough {
			o.LongIdle = 150
		}
	}
	if thorough {
		o.MaxUnits = 7
		o.MaxCols = 6
	}
	return o, em
}

// buildScenario generates the (first) scenario of a case.
func buildScenario(spec *CaseSpec, t *Tape) *Scenario {
	thorough := spec.Tier == "thorough"
	switch spec.Prop {
	case "C01":
		return genScenarioC01(t, thorough)
	case "C02":
		var forced []unitKind
		for _, k := range spec.Forced {
			forced = append(forced, unitKind(k))
		}
		return genScenarioC02(t, thorough, forced)
	case "C03":
		return genScenarioC03(t, thorough)
	case "C08":
		return genScenarioC08(t, thorough)
	case "C15":
		return genScenarioC15(t, thorough)
	case "C04", "C05", "C06", "C07", "C17":
		o, em := faultOpts(spec.Prop, thorough)
		if spec.Enum != nil {
			o.Rare = false // swept histories stay small; the rare modes belong to the random search
			return genFaultScenarioEnum(t, &o, spec.Prop, spec.Enum)
		}
		sc := genFaultScenario(t, &o, em)
		if spec.Prop == "C07" {
			tuneC07(t, sc)
		}
		return sc
	}
	panic("unknown property " + spec.Prop)
}

// genFaultScenarioEnum: one fault attempt of a pinned kind/place/pacing, then a clean one.
func genFaultScenarioEnum(t *Tape, o *GenOpts, prop string, e *EnumSpec) *Scenario {
	h := genHistoryFor(t, t.S("hist"), o)
	cs := t.S("cfg")
	fs := t.S("fault")
	sc := &Scenario{Hist: h, Start: pickStart(cs, h, true), ServerID: replicaIDOf(t)}
	var p AttemptPlan
	genPolicy(t.S("policy"), &p)
	p.Pacing = e.Pacing
	kind := stopKind(e.Kind)
	if kind == stopTimeout {
		sc.ReadTimeout = true
	}
	fillFault(fs, h, kind, e.At, &p)
	if kind == stopCancel {
		p.CancelWhen = e.When
	}
	p.BlockedAtStop = e.When%2 == 1 && kind != stopCancel
	p.StallAfterStop = e.Stall == 1
	if kind == stopERR && e.Code > 0 {
		p.Stream.ErrCode = uint16(e.Code)
	}
	sc.Attempts = []AttemptPlan{p, cleanAttempt(cs, t.S("policy"))}
	return sc
}

// tuneC07 widens server ids and (when possible) the start offset domain.
func tuneC07(t *Tape, sc *Scenario) {
	// server ids (boundary values included) are drawn by replicaIDOf before the
	// history is generated, so that events may carry the replica's own id
	_ = t
}

func hashStrings(parts ...string) uint64 {
	h := fnv.New64a()
	for _, p := range parts {
		h.Write([]byte(p))
		h.Write([]byte{0})
	}
	return h.Sum64()
}

// scheduleSignature hashes what happened in a run (not just what was planned).
func scheduleSignature(r *Run) string {
	s := ""
	for _, a := range r.Results {
		s += fmt.Sprintf("|%v/%d/%v/%v/%v/%d", a.Causes, len(a.Calls), a.ReaderHolding, a.HandlerParked, a.MidPacket, a.PacketsAtCause)
		for _, c := range a.Calls {
			s += fmt.Sprintf(",%d:%d", c.Seq, c.PacketsDelivered)
		}
	}
	return s
}

func collectStats(res *CaseResult, r *Run) {
	st := &res.Stats
	st.Runs++
	st.Steps += r.steps
	if st.Faults == nil {
		st.Faults = map[string]int{}
	}
	if r.sc != nil && r.sc.Hist != nil && r.sc.Hist.carried > 0 {
		st.probe("rows-decoded-with-a-table-map-of-an-earlier-statement")
	}
	for _, a := range r.Results {
		st.Attempts++
		st.SimTime += a.SimTime
		for _, c := range a.Causes {
			st.Faults[c]++
		}
		for _, c := range a.Calls {
			if c.Snap != nil {
				st.Deliveries++
			}
		}
		if len(a.Causes) > 0 {
			if a.ReaderHolding {
				st.probe("reader-holding-event-at-stop")
			} else if a.HadConn {
				st.probe("reader-waiting-for-network-at-stop")
			}
			if a.HandlerParked {
				st.probe("handler-parked-at-stop")
			}
			if a.MidPacket {
				st.probe("stop-inside-a-packet")
			}
			if !a.HadConn || (a.Master != nil && len(a.Master.Dumps) == 0) {
				st.probe("attempt-failed-before-dump")
			}
		}
		if a.PacketsDeliv > 255 {
			st.probe("sequence-id-wrapped")
		}
		if a.Master != nil && len(a.Master.Dumps) > 0 && a.Master.Dumps[0].Offset > 1<<31 {
			st.probe("offset-above-2^31")
		}
		if a.Master != nil && len(a.Master.Dumps) > 0 {
			switch a.Master.Dumps[0].Offset {
			case 1<<32 - 1:
				st.probe("dump-request-at-offset-2^32-1")
			case 1 << 31, 1<<31 - 1:
				st.probe("dump-request-at-offset-2^31(-1)")
			}
		}
		if a.Master != nil && len(a.MapperCalls) > 1024 {
			st.probe("more-than-1024-table-ids-on-one-connection")
		}
	}
	if r.master != nil {
		for _, p := range r.master.packets {
			if len(p.payload) >= 1<<24-1 {
				st.probe("event-split-over-several-mysql-packets")
				break
			}
		}
		for _, p := range r.master.packets {
			if len(p.payload) > 4096 {
				st.probe("packet-larger-than-driver-buffer")
				break
			}
		}
	}
}

// RunCase executes one case and judges it with the property's oracles.
func RunCase(t *testing.T, spec CaseSpec) *CaseResult {
	setZone(spec.Zone)
	tape := spec.tape()
	res := &CaseResult{Spec: spec, Tape: tape}
	sc := buildScenario(&spec, tape)
	res.Scenario = sc
	if spec.Prop == "C08" {
		sc.Scribble = false
		sc.LateScribble = true
		if tape.S("cfg").Chance(1, 8) {
			sc.ValuesOnly, sc.LateScribble = true, false
		}
		sc.MarshalTx = tape.S("consumer").Chance(1, 5)
	}
	r := Execute(t, sc, tape)
	res.Runs = append(res.Runs, r)
	collectStats(res, r)
	if r.HarnessErr != "" {
		res.Harness = r.HarnessErr
		return res
	}
	for _, a := range r.Results {
		if a.StepCapped {
			res.Stats.probe("inconclusive:step-cap")
			return res
		}
	}
	add := func(vs []Violation) { res.Violations = append(res.Violations, vs...) }
	first := r.Results[0]
	delivered := 0
	for _, c := range r.calls {
		if c.Snap != nil {
			delivered++
		}
	}
	faultInFlight := false
	for _, a := range r.Results {
		if len(a.Causes) > 0 && a.Plan.Stop != stopNone && (a.ReaderHolding || a.HandlerParked || a.MidPacket || a.PacketsDeliv > 2) {
			faultInFlight = true
		}
	}
	switch spec.Prop {
	case "C01":
		add(retag("C01", checkDeliveries("C01", sc.Hist, sc.Start, first.Calls, 0, false)))
		add(cleanEnd("C01", first, 0))
		res.Nontrivial = delivered > 0
	case "C02":
		add(checkC02(r))
		for _, st := range r.Stability {
			// a delivered transaction that later gains or loses changes: a change was
			// moved across a commit point / delivered in two transactions
			res.Violations = append(res.Violations, Violation{"C02", "duplicate-change", st, 0})
		}
		res.Nontrivial = delivered > 0
	case "C03":
		if len(sc.Attempts) > 1 && sc.Attempts[1].RewindTo {
			// the same Streamer re-pointed to a delivered end label
			for _, rw := range r.Rewound {
				if rw.Attempt >= len(r.Results) {
					continue
				}
				a := r.Results[rw.Attempt]
				if a.Master == nil || len(a.Master.Dumps) == 0 {
					continue
				}
				d := a.Master.Dumps[0]
				if got := (Pos{d.File, int64(d.Offset)}); got != rw.Label {
					add([]Violation{{"C03", "resume-suffix", fmt.Sprintf("SetBinlogPosition(%v) on the same Streamer, but the next Stream call asked the master for %v", rw.Label, got), rw.Attempt}})
					continue
				}
				if !d.Served {
					continue
				}
				vs := checkPrefix("C03", sc.Hist, rw.Label, a.Calls, rw.Attempt)
				for i := range vs {
					vs[i].Rule = "resume-suffix"
					vs[i].Detail = fmt.Sprintf("same Streamer resumed at delivered label %v: %s", rw.Label, vs[i].Detail)
				}
				add(vs)
				exp, _ := sc.Hist.Model(rw.Label)
				cleanPlan := a.Plan.Stop == stopNone || (a.Plan.Stop == stopEOF && a.Plan.Stream.AtPacket >= 1<<30)
				if len(vs) == 0 && cleanPlan && !a.Hang && a.Returned && a.StreamErr == nil && len(a.Calls) != len(exp) {
					add([]Violation{{"C03", "resume-suffix", fmt.Sprintf("same Streamer resumed at delivered label %v: %d deliveries, the binlog holds %d commit points behind it", rw.Label, len(a.Calls), len(exp)), rw.Attempt}})
				}
			}
			res.Stats.probe("same-streamer-rewind-cases")
		} else if len(sc.Attempts) > 1 {
			// replica crash + restart from the last label the handler made durable
			for _, v := range checkC04(r) {
				v.Property, v.Rule = "C03", "crash-restart-exactly-once:"+v.Rule
				res.Violations = append(res.Violations, v)
			}
			for i, a := range r.Results {
				if a.Master != nil && len(a.Master.Dumps) > 0 && a.Master.Dumps[0].Served {
					d := a.Master.Dumps[0]
					for _, v := range checkPrefix("C03", sc.Hist, Pos{d.File, int64(d.Offset)}, a.Calls, i) {
						v.Rule = "crash-restart-exactly-once:content"
						res.Violations = append(res.Violations, v)
					}
				}
			}
			res.Stats.probe("crash-restart-cases")
		} else {
			add(checkC03Main(r))
			if len(res.Violations) == 0 {
				add(checkC03Resume(t, res, r))
			}
		}
		res.Nontrivial = delivered > 1
	case "C04":
		add(checkC04(r))
		for i, a := range r.Results {
			if i > 0 && a.Master != nil && len(a.Master.Dumps) > 0 {
				res.Stats.probe("resume-coordinate-judged-after:" + strings.Join(r.Results[i-1].Causes, "+"))
			}
		}
		res.Nontrivial = delivered > 0 && faultInFlight
	case "C05":
		add(checkC05(r))
		for _, a := range r.Results {
			if len(a.Causes) > 0 && a.Causes[0] == "cancel" && a.CauseSeqSet && len(a.Calls) > 0 {
				late, before := 0, 0
				for _, c := range a.Calls {
					if c.Seq > a.CauseSeq {
						late++
					} else {
						before++
					}
				}
				expAll, _ := r.sc.Hist.Model(r.sc.Start)
				pending := len(expAll) - before - late
				switch {
				case late > 3:
					res.Stats.probe("cancel:late-calls>3")
				case late > 0:
					res.Stats.probe("cancel:late-calls-1..3")
				}
				if pending > cancelSlack {
					res.Stats.probe("cancel:backlog-beyond-slack-undelivered")
				}
			}
		}
		res.Nontrivial = faultInFlight || anyConnPhase(r)
	case "C06":
		add(checkC06(r))
		for _, a := range r.Results {
			if len(a.Causes) != 1 || a.Hang || a.ErrorBlocked {
				res.Stats.probe(fmt.Sprintf("not-judged:plan=%v:causes=%d", a.Plan.Stop, len(a.Causes)))
			}
			if len(a.Causes) == 1 && !a.Hang && !a.ErrorBlocked {
				k := "judged:" + a.Causes[0]
				if a.StreamErr == nil {
					k += ":stream-nil"
					if len(a.ErrorResults) > 0 && a.ErrorResults[0] != nil {
						k += ":error-reported"
					}
				}
				res.Stats.probe(k)
			}
		}
		res.Nontrivial = faultInFlight || anyConnPhase(r)
	case "C07":
		add(checkC07(r))
		res.Nontrivial = len(r.Results) > 1
	case "C08":
		add(checkC08(r))
		// second run: same tape, scribbling handler; deliveries must be identical
		tape2 := ReplayTape(spec.Seed, tape.Record())
		sc2 := buildScenario(&spec, tape2)
		sc2.Scribble = true
		r2 := Execute(t, sc2, tape2)
		res.Runs = append(res.Runs, r2)
		collectStats(res, r2)
		if r2.HarnessErr != "" {
			res.Harness = r2.HarnessErr
			return res
		}
		add(checkC08(r2))
		add(compareScribbleRuns(r, r2))
		res.Nontrivial = delivered > 1
	case "C15":
		add(checkC15(r))
		res.Nontrivial = delivered > 0
	case "C17":
		add(checkC17(r))
		for _, a := range r.Results {
			if a.Plan.Stream.GateAccepted {
				if hasCause(a, "invalid-event") {
					res.Stats.probe("gate-accepted-bare-header-delivered")
				}
				break
			}
			if hasCause(a, "invalid-event") {
				n := len(a.Plan.Stream.Invalid)
				if n >= 65536 {
					res.Stats.probe("malformed:64KiB-or-larger")
					iv := a.Plan.Stream.Invalid
					if int(iv[9])|int(iv[10])<<8|(int(iv[11])|int(iv[12]))<<16 == n {
						res.Stats.probe("malformed:length-bytes-2-and-3-or-together-to-the-real-length")
					}
				}
				switch {
				case n == 0:
					res.Stats.probe("malformed:empty")
				case n < 19:
					res.Stats.probe("malformed:shorter-than-header")
				default:
					l := int(uint32(a.Plan.Stream.Invalid[9]) | uint32(a.Plan.Stream.Invalid[10])<<8 | uint32(a.Plan.Stream.Invalid[11])<<16 | uint32(a.Plan.Stream.Invalid[12])<<24)
					if l < n {
						res.Stats.probe("malformed:length-field-smaller-than-buffer")
					} else {
						res.Stats.probe("malformed:length-field-larger-than-buffer")
					}
				}
			}
		}
		res.Nontrivial = faultInFlight
	}
	res.Hash = hashStrings(spec.Prop, fmt.Sprint(describeScenario(sc)), scheduleSignature(r))
	for _, x := range res.Runs {
		x.release()
	}
	return res
}

func anyConnPhase(r *Run) bool {
	for _, a := range r.Results {
		if a.Plan.Stop.connPhase() && len(a.Causes) > 0 {
			return true
		}
	}
	return false
}

func retag(prop string, vs []Violation) []Violation {
	for i := range vs {
		vs[i].Property = prop
	}
	return vs
}

// cleanEnd: a fault-free attempt must end with Stream = nil and Error() = nil, without panic.
func cleanEnd(prop string, att *AttemptResult, idx int) []Violation {
	var vs []Violation
	if att.StreamPanic != "" {
		return []Violation{{prop, "panic", firstLine(att.StreamPanic), idx}}
	}
	if att.Hang {
		return []Violation{{prop, "stream-result", "the stream did not end", idx}}
	}
	if att.StreamErr != nil {
		vs = append(vs, Violation{prop, "stream-result", "fault-free stream ended with " + errText(att.StreamErr), idx})
	}
	return vs
}

// ---------------------------------------------------------------------------
// C02

func checkC02(r *Run) []Violation {
	sc := r.sc
	att := r.Results[len(r.Results)-1]
	var vs []Violation
	// (two-attempt variant: the first call ends with a refused transaction that the
	// application steps over; the deliveries of both calls together are the commit
	// points of the binlog, the refused one included, each exactly once)
	var calls []*HandlerCall
	for ai, a := range r.Results {
		if a.EarlyDelivery != "" {
			vs = append(vs, Violation{"C02", "early-delivery", a.EarlyDelivery, ai})
		}
		if a.Hang && ai < len(r.Results)-1 {
			return vs // C05's business
		}
		calls = append(calls, a.Calls...)
	}
	if len(r.Results) != len(sc.Attempts) {
		return vs
	}
	exp, ok := sc.Hist.Model(sc.Start)
	if !ok {
		return append(vs, Violation{"C02", "harness", "bad start", 0})
	}
	// grouping: same number of deliveries, each with exactly the expected changes
	for i, c := range calls {
		if c.Snap == nil {
			return append(vs, Violation{"C02", "grouping", fmt.Sprintf("delivery %d is nil", i), 0})
		}
		if i >= len(exp) {
			return append(vs, Violation{"C02", "grouping", fmt.Sprintf("delivery %d (%d changes, end %v) has no commit point in the binlog", i, len(c.Snap.Events), c.Snap.Next), 0})
		}
		u := sc.Hist.Units[exp[i].Unit]
		if rule, detail := compareTx(exp[i], c.Snap); rule != "" {
			name := "grouping"
			if u.Kind == uTxRollback && len(c.Snap.Events) > 0 {
				name = "rollback-delivered"
			}
			return append(vs, Violation{"C02", name, fmt.Sprintf("delivery %d vs unit %d (%s): %s: %s", i, exp[i].Unit, u.Desc, rule, detail), 0})
		}
		if c.Snap.Next != exp[i].Next {
			return append(vs, Violation{"C02", "grouping", fmt.Sprintf("delivery %d ends at %v, its commit event ends at %v", i, c.Snap.Next, exp[i].Next), 0})
		}
	}
	if len(calls) < len(exp) && !att.Hang {
		u := sc.Hist.Units[exp[len(calls)].Unit]
		vs = append(vs, Violation{"C02", "grouping", fmt.Sprintf("%d deliveries, %d commit points; first undelivered: unit %d (%s)", len(calls), len(exp), exp[len(calls)].Unit, u.Desc), 0})
	}
	vs = append(vs, cleanEnd("C02", att, len(r.Results)-1)...)
	return vs
}

// ---------------------------------------------------------------------------
// C03

func checkC03Main(r *Run) []Violation {
	sc := r.sc
	att := r.Results[0]
	vs := checkDeliveries("C03", sc.Hist, sc.Start, att.Calls, 0, true)
	for i := range vs {
		if vs[i].Rule != "chain" && vs[i].Rule != "end-label" {
			// content problems are C01's business; only label rules are reported here,
			// but a content mismatch makes the label comparison meaningless
			vs[i].Rule = "content:" + vs[i].Rule
		}
	}
	var keep []Violation
	for _, v := range vs {
		if v.Rule == "chain" || v.Rule == "end-label" || v.Rule == "content:count" || v.Rule == "content:extra-call" {
			keep = append(keep, v)
		}
	}
	return keep
}

// checkC03Resume starts a fresh stream at the end label of delivered
// transactions and demands exactly the remaining ones.
func checkC03Resume(t *testing.T, res *CaseResult, main *Run) []Violation {
	sc := main.sc
	calls := main.Results[0].Calls
	if len(calls) == 0 {
		return nil
	}
	cs := res.Tape.S("resume")
	picks := []int{}
	big := 0
	for _, f := range sc.Hist.Files {
		big += int(f.Size - f.Gap)
	}
	if res.Spec.Tier == "thorough" && big < 1<<20 && len(calls) <= 60 {
		for k := range calls {
			picks = append(picks, k)
		}
	} else if res.Spec.Tier == "thorough" {
		// very large or very long histories: a sample of resume points
		for i := 0; i < 6; i++ {
			picks = append(picks, cs.N(len(calls)))
		}
	} else {
		n := 2
		for i := 0; i < n && i < len(calls); i++ {
			picks = append(picks, cs.N(len(calls)))
		}
	}
	for _, k := range picks {
		if calls[k].Snap == nil {
			continue
		}
		label := calls[k].Snap.Next
		sc2 := &Scenario{Hist: sc.Hist, Start: label, ServerID: sc.ServerID}
		sc2.Attempts = []AttemptPlan{cleanAttempt(cs, cs)}
		r2 := Execute(t, sc2, res.Tape)
		res.Runs = append(res.Runs, r2)
		collectStats(res, r2)
		r2.release()
		if r2.HarnessErr != "" {
			res.Harness = r2.HarnessErr
			return nil
		}
		a2 := r2.Results[0]
		if a2.Master != nil && len(a2.Master.Dumps) > 0 {
			d := a2.Master.Dumps[0]
			if d.File != label.File || int64(d.Offset) != label.Off {
				return []Violation{{"C03", "resume-request", fmt.Sprintf("resuming at label %v of delivery %d the master was asked for %s:%d", label, k, d.File, d.Offset), 0}}
			}
			if !d.Served {
				return []Violation{{"C03", "resume-request", fmt.Sprintf("label %v of delivery %d is not a position the master can serve: %s", label, k, d.Refused), 0}}
			}
		}
		rest := calls[k+1:]
		if len(a2.Calls) != len(rest) {
			return []Violation{{"C03", "resume-suffix", fmt.Sprintf("resuming at the end label %v of delivery %d yields %d transactions, the original run delivered %d after it", label, k, len(a2.Calls), len(rest)), 0}}
		}
		for i := range rest {
			if rest[i].Snap == nil || a2.Calls[i].Snap == nil {
				continue
			}
			a, b := *rest[i].Snap, *a2.Calls[i].Snap
			if i == 0 {
				// the first resumed transaction starts at the resume label itself
				// or at the original start label (a rotation may lie in between)
				if b.Now != label && b.Now != a.Now {
					return []Violation{{"C03", "resume-suffix", fmt.Sprintf("first resumed transaction is labelled %v; expected %v or %v", b.Now, label, a.Now), 0}}
				}
				b.Now = a.Now
			}
			if d := snapDiff(&a, &b); d != "" {
				return []Violation{{"C03", "resume-suffix", fmt.Sprintf("resuming at %v: transaction %d differs from the original run: %s", label, i, d), 0}}
			}
		}
	}
	return nil
}

// ---------------------------------------------------------------------------
// C08 second half

func compareScribbleRuns(a, b *Run) []Violation {
	if len(a.calls) != len(b.calls) {
		return []Violation{{"C08", "later-delivery-corrupted", fmt.Sprintf("%d deliveries with a well-behaved handler, %d with an overwriting handler", len(a.calls), len(b.calls)), 0}}
	}
	for i := range a.calls {
		if a.calls[i].Snap == nil || b.calls[i].Snap == nil {
			continue
		}
		if d := snapDiff(a.calls[i].Snap, b.calls[i].Snap); d != "" {
			return []Violation{{"C08", "later-delivery-corrupted", fmt.Sprintf("delivery %d differs once the handler overwrites what it received earlier: %s", i, d), b.calls[i].Attempt}}
		}
	}
	return nil
}

// ---------------------------------------------------------------------------
// C15 (scoped): attribution, latest map, mapper by ordinal, mismatch rejected

func checkC15(r *Run) []Violation {
	var vs []Violation
	h := r.sc.Hist
	for i, att := range r.Results {
		if att.Master == nil || len(att.Master.Dumps) == 0 || !att.Master.Dumps[0].Served {
			continue
		}
		d := att.Master.Dumps[0]
		start := Pos{d.File, int64(d.Offset)}
		exp, poison, ok := h.ModelP(start)
		if !ok {
			continue
		}
		if att.StreamPanic != "" {
			return []Violation{{"C15", "panic", firstLine(att.StreamPanic), i}}
		}
		benign := att.Plan.Stop == stopNone || att.Plan.Stop == stopEOF
		for _, c := range att.Causes {
			benign = benign && (c == "cancel" || c == "eof-packet")
		}
		if poison >= 0 && benign && !att.Hang {
			pu := h.Units[poison]
			if att.PoisonDelivered || att.StreamErr != nil {
				if att.StreamErr == nil {
					vs = append(vs, Violation{"C15", "mismatch-accepted", fmt.Sprintf("a cached table id was re-announced with a table map its rows cannot be decoded under - another column count or a column type without a decoder - (unit %d, %s) and its rows reached the client; Stream returned nil", poison, pu.Desc), i})
				}
				for k, c := range att.Calls {
					if c.Snap != nil && c.Snap.Next == pu.Tx.Next {
						vs = append(vs, Violation{"C15", "mismatch-accepted", fmt.Sprintf("delivery %d is the transaction whose table map disagrees with the mapper's column count", k), i})
					}
				}
				if len(att.Calls) > len(exp) {
					vs = append(vs, Violation{"C15", "mismatch-accepted", fmt.Sprintf("%d deliveries, only %d precede the column-count change", len(att.Calls), len(exp)), i})
				}
			}
		}
		cleanPlan := att.Plan.Stop == stopNone || (att.Plan.Stop == stopEOF && att.Plan.Stream.AtPacket >= 1<<30)
		if cleanPlan && poison < 0 && !att.Hang && !att.StepCapped {
			if att.StreamErr != nil {
				vs = append(vs, Violation{"C15", "attribution", "a well-formed stream (every rows event preceded by its table map) ended with " + errText(att.StreamErr), i})
			} else if len(att.Calls) < len(exp) {
				vs = append(vs, Violation{"C15", "attribution", fmt.Sprintf("%d of %d transactions delivered from a well-formed stream", len(att.Calls), len(exp)), i})
			}
		}
		miscount := hasCause(att, "mapper-miscount")
		for k, c := range att.Calls {
			if c.Snap == nil || k >= len(exp) {
				break
			}
			if rule, detail := compareTx(exp[k], c.Snap); rule != "" {
				name := "attribution"
				switch rule {
				case "event-table":
					name = "wrong-table"
				case "column-name":
					name = "name-by-ordinal"
				case "column-type", "column-count":
					name = "stale-types"
				}
				if len(rule) > 6 && rule[:6] == "value:" {
					name = "stale-types-or-signedness"
				}
				return []Violation{{"C15", name, fmt.Sprintf("delivery %d: %s: %s", k, rule, detail), i}}
			}
		}
		if miscount && len(att.Causes) == 1 {
			if att.StreamErr == nil {
				vs = append(vs, Violation{"C15", "mismatch-accepted", fmt.Sprintf("the mapper reported %+d columns for table call %d and Stream returned nil", att.Plan.MiscountDelta, att.Plan.CallIndex), i})
			}
			// no delivery may contain rows of the mismatching table after the fault
			bad := att.MapperCalls[len(att.MapperCalls)-1]
			badShown := bad.Name
			for _, t := range append(append([]*TableDef{}, r.sc.Hist.retired...), r.sc.Hist.Tables...) {
				if t.DB == bad.DB && t.Name == bad.Name {
					badShown = t.shownName()
				}
			}
			seenFault := false
			for _, c := range att.Calls {
				if c.Seq > bad.Seq {
					seenFault = true
				}
				if seenFault && c.Snap != nil {
					for _, e := range c.Snap.Events {
						if e.DB == bad.DB && (e.Table == bad.Name || e.Table == badShown) {
							vs = append(vs, Violation{"C15", "mismatch-accepted", fmt.Sprintf("rows of %s.%s were delivered although the mapper's column count disagrees with the table map", bad.DB, bad.Name), i})
						}
					}
				}
			}
		}
		// mapper call log: one lookup per table id of the served range, in order of first announcement
		var wantCalls []string
		seen := map[uint64]string{} // table id -> schema NUL table it currently stands for
		for fi := h.fileIndex(start.File); fi < len(h.Files) && fi >= 0; fi++ {
			for _, e := range h.Files[fi].Events {
				if fi == h.fileIndex(start.File) && int64(e.Offset) < start.Off {
					continue
				}
				if e.Type == evTableMap && e.Unit >= 0 {
					// one lookup when an id is announced for the first time, and again when
					// it is announced for another table (ids restart with the master)
					if id, key, ok := tableMapHead(h, e); ok && seen[id] != key {
						seen[id] = key
						wantCalls = append(wantCalls, key)
					}
				}
			}
		}
		for k, mc := range att.MapperCalls {
			if k >= len(wantCalls) {
				vs = append(vs, Violation{"C15", "mapper-call", fmt.Sprintf("unexpected table lookup %d for %s.%s", k, mc.DB, mc.Name), i})
				break
			}
			if mc.DB+"\x00"+mc.Name != wantCalls[k] {
				vs = append(vs, Violation{"C15", "mapper-call", fmt.Sprintf("table lookup %d asked for %s.%s, the table map announced %s", k, mc.DB, mc.Name, wantCalls[k]), i})
				break
			}
		}
	}
	return vs
}

// tableMapHead reads table id, schema and table name out of a TABLE_MAP body.
func tableMapHead(h *History, e *Event) (id uint64, key string, ok bool) {
	n := 6
	if h.Cfg.TableID4 {
		n = 4
	}
	b := e.Body
	if len(b) < n+2+1 {
		return 0, "", false
	}
	for i := 0; i < n; i++ {
		id |= uint64(b[i]) << (8 * uint(i))
	}
	p := n + 2
	dl := int(b[p])
	if len(b) < p+1+dl+1+1 {
		return 0, "", false
	}
	db := string(b[p+1 : p+1+dl])
	p += 1 + dl + 1
	tl := int(b[p])
	if len(b) < p+1+tl {
		return 0, "", false
	}
	return id, db + "\x00" + string(b[p+1:p+1+tl]), true
}

func tableOfEvent(h *History, e *Event) *TableDef {
	// table id is the first 4/6 bytes of the body
	n := 6
	if h.Cfg.TableID4 {
		n = 4
	}
	var id uint64
	for i := 0; i < n && i < len(e.Body); i++ {
		id |= uint64(e.Body[i]) << (8 * uint(i))
	}
	if h.byID == nil {
		h.byID = map[uint64]*TableDef{}
		for _, t := range h.Tables {
			h.byID[t.ID] = t
		}
	}
	return h.byID[id]
}
