package verifsim

import (
	"bytes"
	"encoding/json"
	"fmt"
	"os"
	"os/exec"
	"path/filepath"
	"strings"
	"sync"
	"testing"
	"time"
)

type raceWorkerOut struct {
	Runs     int            `json:"runs"`
	Attempts int            `json:"attempts"`
	Stops    map[string]int `json:"stop_kinds"`
	Notes    []string       `json:"notes"`
	WallS    float64        `json:"wall_s"`
}

// TestRaceWorker runs C05 scenarios free-running; meaningful in the -race binary.
func TestRaceWorker(t *testing.T) {
	if os.Getenv("VSIM_MODE") != "raceworker" {
		t.Skip("race worker mode only")
	}
	seed := envU64("VERIF_SEED", 1)
	w := envInt("VSIM_WORKER", 0)
	nw := envInt("VSIM_WORKERS", 1)
	n := envInt("VSIM_RACE_RUNS", 100)
	budget := time.Duration(envInt("VSIM_BUDGET_MS", 20000)) * time.Millisecond
	setZone(w)
	out := raceWorkerOut{Stops: map[string]int{}}
	start := time.Now()
	for k := 0; k < n && time.Since(start) < budget; k++ {
		s := mix64(seed, uint64(5000000+w+k*nw))
		fmt.Fprintf(os.Stderr, "RACE-RUN seed=%d\n", s)
		spec := CaseSpec{Prop: "C05", Tier: "quick", Seed: s}
		tape := NewTape(s)
		sc := buildScenario(&spec, tape)
		sc.ReadTimeout = false
		for i := range sc.Attempts {
			if sc.Attempts[i].Stop == stopTimeout {
				sc.Attempts[i].Stop = stopCancel
			}
			if i < len(sc.Attempts)-1 && mix64(s, uint64(i))%3 == 0 {
				sc.Attempts[i].SkipErrorCalls = true
			}
			out.Stops[sc.Attempts[i].Stop.String()]++
			out.Attempts++
		}
		note := ExecuteFree(sc, tape)
		if strings.Contains(note, "did not return") || strings.Contains(note, "blocked") {
			if len(out.Notes) < 5 {
				out.Notes = append(out.Notes, fmt.Sprintf("seed %d: %s", s, note))
			}
		}
		out.Runs++
	}
	out.WallS = time.Since(start).Seconds()
	b, _ := json.Marshal(out)
	os.WriteFile(filepath.Join(os.Getenv("VSIM_OUTDIR"), fmt.Sprintf("race-%d-%s.json", w, os.Getenv("VSIM_RACE_TAG"))), b, 0o644)
}

// raceMode runs the race workers and classifies their reports.
func raceMode(verifDir, outDir, replayDir, tier string, seed uint64, nw int) ([]ViolationOut, map[string]interface{}, []string) {
	bin := os.Getenv("VSIM_RACE_BIN")
	if bin == "" {
		return nil, nil, []string{"race binary not built (VSIM_RACE_BIN unset)"}
	}
	perWorker := 130
	budgetMs := 25000
	procs := []int{4}
	if tier == "thorough" {
		perWorker = 2500
		budgetMs = 240000
		procs = []int{4, 16}
	}
	if v := envInt("VSIM_RACE_RUNS", 0); v > 0 {
		perWorker = v
	}
	var viol []ViolationOut
	var harness []string
	sigCount := map[string]int{}
	sigText := map[string]RaceReport{}
	totalRuns, totalAtt := 0, 0
	stops := map[string]int{}
	var mu sync.Mutex
	for _, gmp := range procs {
		var wg sync.WaitGroup
		for w := 0; w < nw; w++ {
			wg.Add(1)
			go func(w int) {
				defer wg.Done()
				cmd := exec.Command(bin, "-test.run", "^TestRaceWorker$", "-test.count", "1", "-test.timeout", "0")
				tag := fmt.Sprintf("p%d", gmp)
				cmd.Env = append(os.Environ(), "VSIM_MODE=raceworker", fmt.Sprintf("VSIM_WORKER=%d", w), fmt.Sprintf("VSIM_WORKERS=%d", nw),
					"VSIM_OUTDIR="+outDir, fmt.Sprintf("VSIM_RACE_RUNS=%d", perWorker), fmt.Sprintf("VSIM_BUDGET_MS=%d", budgetMs),
					fmt.Sprintf("GOMAXPROCS=%d", gmp), "GORACE=halt_on_error=0 exitcode=0 history_size=2", fmt.Sprintf("VERIF_SEED=%d", seed+uint64(gmp)),
					"VSIM_RACE_TAG="+tag)
				var stderr bytes.Buffer
				cmd.Stderr = &stderr
				cmd.Stdout = &stderr
				err := cmd.Run()
				log := stderr.String()
				reports := parseRaceLog(log)
				mu.Lock()
				defer mu.Unlock()
				b, e := os.ReadFile(filepath.Join(outDir, fmt.Sprintf("race-%d-%s.json", w, tag)))
				if e != nil {
					tail := log
					if len(tail) > 3000 {
						tail = tail[len(tail)-3000:]
					}
					harness = append(harness, fmt.Sprintf("race worker %d (GOMAXPROCS %d) failed: %v\n%s", w, gmp, err, tail))
					return
				}
				var o raceWorkerOut
				json.Unmarshal(b, &o)
				totalRuns += o.Runs
				totalAtt += o.Attempts
				for k, v := range o.Stops {
					stops[k] += v
				}
				for _, n := range o.Notes {
					harness = append(harness, "race mode: "+n)
				}
				for _, r := range reports {
					sigCount[r.Signature]++
					if _, ok := sigText[r.Signature]; !ok {
						sigText[r.Signature] = r
					}
				}
			}(w)
		}
		wg.Wait()
	}
	for sig, r := range sigText {
		if r.Harness || (!libFrame(r.A) && !libFrame(r.B)) {
			harness = append(harness, "race report without a library frame (harness race?):\n"+r.Text)
			continue
		}
		rf := map[string]interface{}{"property": "C05", "rule": "race", "signature": sig, "count": sigCount[sig],
			"first_seen_in": r.Marker, "report": strings.Split(r.Text, "\n"),
			"note": "race mode is free-running and cannot be replayed exactly; re-run `./check C05 quick` - the scenario seed in first_seen_in is executed again under the race detector"}
		b, _ := json.MarshalIndent(rf, "", " ")
		os.MkdirAll(replayDir, 0o755)
		path := filepath.Join(replayDir, fmt.Sprintf("C05-race-%016x.json", hashStrings(sig)))
		os.WriteFile(path, b, 0o644)
		viol = append(viol, ViolationOut{"C05", "race", "data race: " + sig, path, 0})
	}
	stats := map[string]interface{}{"free_running_runs": totalRuns, "stream_attempts": totalAtt, "gomaxprocs": procs,
		"race_reports_by_signature": sigCount, "stop_kinds": stops}
	return viol, stats, harness
}
