package verifsim

// race mode placeholder (implemented in race.go once the stepped mode is settled)
func raceMode(verifDir, outDir, replayDir, tier string, seed uint64, nw int) ([]ViolationOut, map[string]interface{}, []string) {
	return nil, nil, nil
}
