package verifsim

// The simulated environment of the Streamer: handler, table mapper, dialer,
// and the records they keep.

import (
	"bytes"
	"context"
	"fmt"
	"net"
	"regexp"
	"runtime"
	"strings"
	"sync"
	"sync/atomic"
	"time"

	"github.com/Breeze0806/gobinlog"
	"github.com/Breeze0806/mysql"
)

// simLogger is the log sink of gobinlog and of the driver. It prints nothing;
// in runs that ask for it every non-debug call parks the calling goroutine
// until the controller releases it (a yield point inside library goroutines).
type simLogger struct{}

var activeRun atomic.Pointer[Run]

func logPoint() {
	if r := activeRun.Load(); r != nil {
		r.parkInLogger()
	}
}

func (simLogger) Errorf(string, ...interface{}) { logPoint() }
func (simLogger) Infof(string, ...interface{})  { logPoint() }
func (simLogger) Debugf(string, ...interface{}) {
	if r := activeRun.Load(); r != nil && r.debugYield {
		r.parkInLogger()
	}
}
func (simLogger) Print(...interface{})          { logPoint() }
func (simLogger) Printf(string, ...interface{}) { logPoint() }

var (
	envOnce   sync.Once
	runsMu    sync.Mutex
	runsByKey = map[string]*Run{}
)

func initEnv() {
	envOnce.Do(func() {
		gobinlog.SetLogger(simLogger{})
		mysql.RegisterDialContext("sim", func(ctx context.Context, addr string) (net.Conn, error) {
			runsMu.Lock()
			r := runsByKey[addr]
			runsMu.Unlock()
			if r == nil {
				return nil, fmt.Errorf("sim: no run registered for %q", addr)
			}
			if strings.HasSuffix(addr, "-bystander") {
				return r.dialBystander(ctx)
			}
			return r.dial(ctx)
		})
	})
}

// ---------------------------------------------------------------------------
// snapshots of delivered transactions

type SnapCol struct {
	Name    string
	Type    byte
	IsEmpty bool
	Nil     bool
	Data    []byte
}

type SnapEvent struct {
	Type       int
	DB, Table  string
	QDB, SQL   string
	Charset    *[3]int32
	Timestamp  int64
	Values     [][]SnapCol
	Identifies [][]SnapCol
}

type SnapTx struct {
	Now, Next Pos
	Timestamp int64
	Events    []SnapEvent
	NilEvents bool
}

func snapRows(rows []*gobinlog.RowData) [][]SnapCol {
	out := make([][]SnapCol, 0, len(rows))
	for _, r := range rows {
		if r == nil {
			out = append(out, nil)
			continue
		}
		row := make([]SnapCol, 0, len(r.Columns))
		for _, c := range r.Columns {
			if c == nil {
				row = append(row, SnapCol{Name: "<nil column>"})
				continue
			}
			sc := SnapCol{Name: strings.Clone(c.Filed), Type: byte(c.Type), IsEmpty: c.IsEmpty, Nil: c.Data == nil}
			if c.Data != nil {
				sc.Data = append([]byte{}, c.Data...)
			}
			row = append(row, sc)
		}
		out = append(out, row)
	}
	return out
}

func snapshotTx(t *gobinlog.Transaction) *SnapTx {
	s := &SnapTx{
		Now:       Pos{strings.Clone(t.NowPosition.Filename), t.NowPosition.Offset},
		Next:      Pos{strings.Clone(t.NextPosition.Filename), t.NextPosition.Offset},
		Timestamp: t.Timestamp,
		NilEvents: t.Events == nil,
	}
	for _, e := range t.Events {
		if e == nil {
			s.Events = append(s.Events, SnapEvent{Type: -1})
			continue
		}
		// strings are copied byte for byte: a string that aliases a library buffer must
		// not change together with its snapshot
		se := SnapEvent{Type: int(e.Type), DB: strings.Clone(e.Table.DbName), Table: strings.Clone(e.Table.TableName),
			QDB: strings.Clone(e.Query.Database), SQL: strings.Clone(e.Query.SQL), Timestamp: e.Timestamp}
		if e.Query.Charset != nil {
			se.Charset = &[3]int32{e.Query.Charset.Client, e.Query.Charset.Conn, e.Query.Charset.Server}
		}
		se.Values = snapRows(e.RowValues)
		se.Identifies = snapRows(e.RowIdentifies)
		s.Events = append(s.Events, se)
	}
	return s
}

func snapColsEqual(a, b [][]SnapCol) string {
	if len(a) != len(b) {
		return fmt.Sprintf("row count %d vs %d", len(a), len(b))
	}
	for i := range a {
		if len(a[i]) != len(b[i]) {
			return fmt.Sprintf("row %d column count %d vs %d", i, len(a[i]), len(b[i]))
		}
		for j := range a[i] {
			x, y := a[i][j], b[i][j]
			if x.Name != y.Name || x.Type != y.Type || x.IsEmpty != y.IsEmpty || x.Nil != y.Nil || !bytes.Equal(x.Data, y.Data) {
				return fmt.Sprintf("row %d column %d (%s): %q vs %q", i, j, x.Name, x.Data, y.Data)
			}
		}
	}
	return ""
}

// snapCells counts the cells of a snapshot (a size measure for optional extra work).
func snapCells(a *SnapTx) int {
	n := 0
	for _, e := range a.Events {
		for _, r := range e.Values {
			n += len(r)
		}
		for _, r := range e.Identifies {
			n += len(r)
		}
		n += len(e.SQL) / 64
	}
	return n
}

// snapDiff returns "" when two snapshots are identical.
func snapDiff(a, b *SnapTx) string {
	if a.Now != b.Now || a.Next != b.Next || a.Timestamp != b.Timestamp {
		return fmt.Sprintf("labels/timestamp %v %v %d vs %v %v %d", a.Now, a.Next, a.Timestamp, b.Now, b.Next, b.Timestamp)
	}
	if len(a.Events) != len(b.Events) {
		return fmt.Sprintf("event count %d vs %d", len(a.Events), len(b.Events))
	}
	for i := range a.Events {
		x, y := a.Events[i], b.Events[i]
		if x.Type != y.Type || x.DB != y.DB || x.Table != y.Table || x.QDB != y.QDB || x.SQL != y.SQL || x.Timestamp != y.Timestamp {
			return fmt.Sprintf("event %d header differs", i)
		}
		if (x.Charset == nil) != (y.Charset == nil) || (x.Charset != nil && *x.Charset != *y.Charset) {
			return fmt.Sprintf("event %d charset differs", i)
		}
		if d := snapColsEqual(x.Values, y.Values); d != "" {
			return fmt.Sprintf("event %d values: %s", i, d)
		}
		if d := snapColsEqual(x.Identifies, y.Identifies); d != "" {
			return fmt.Sprintf("event %d identifies: %s", i, d)
		}
	}
	return ""
}

// ---------------------------------------------------------------------------
// handler and mapper calls

// HandlerCall is one invocation of the transaction handler.
type HandlerCall struct {
	Attempt      int
	Seq          int // global event sequence number at invocation
	RetSeq       int
	Live         *gobinlog.Transaction
	Snap         *SnapTx
	InsideStream bool
	Overlap      bool
	AfterReturn  bool
	Verdict      error
	Returned     bool
	Kept         []keptVal
	Skipped      bool // refused, then stepped over by the application (counts as consumed)
	release      chan error
	// packets of the attempt's dump stream completely delivered when the call happened
	PacketsDelivered int
	CommitsDelivered int
	ScribbleNote     string
	MarshalNote      string
}

// MapperCall is one invocation of the table mapper.
type MapperCall struct {
	Attempt  int
	Seq      int
	DB, Name string
	Verdict  string
	release  chan mapperVerdict
	Returned bool
}

type mapperVerdict struct {
	kind  int // 0 ok, 1 error, 2 miscount
	delta int
	err   error
}

type simColumn struct {
	name     string
	unsigned bool
}

func (c simColumn) Field() string       { return c.name }
func (c simColumn) IsUnSignedInt() bool { return c.unsigned }

type simTable struct {
	name gobinlog.MysqlTableName
	cols []gobinlog.MysqlColumn
}

func (t simTable) Name() gobinlog.MysqlTableName   { return t.name }
func (t simTable) Columns() []gobinlog.MysqlColumn { return t.cols }

var errHandler = fmt.Errorf("sim: handler refuses the transaction")
var errMapper = fmt.Errorf("sim: table lookup failed")

// ---------------------------------------------------------------------------
// goroutine probe

// libGoroutine describes one goroutine that has library frames on its stack.
type libGoroutine struct {
	Top   string // top-most library frame (function)
	Where string // file:line of that frame
	Role  string
	State string
}

var frameRe = regexp.MustCompile(`^(\S+)\(.*\)$`)
var bubbleRe = regexp.MustCompile(`synctest bubble (\d+)`)

func libFrame(fn string) bool {
	return strings.HasPrefix(fn, "github.com/Breeze0806/gobinlog") || strings.HasPrefix(fn, "github.com/Breeze0806/mysql")
}

// probeGoroutines returns the goroutines that currently have a gobinlog or
// driver frame on their stack.
func probeGoroutines() []libGoroutine {
	buf := make([]byte, 1<<16)
	for {
		n := runtime.Stack(buf, true)
		if n < len(buf) {
			buf = buf[:n]
			break
		}
		buf = make([]byte, len(buf)*2)
	}
	var out []libGoroutine
	gs := strings.Split(string(buf), "\n\n")
	// the first goroutine printed is the caller; only goroutines of its synctest
	// bubble belong to this run (earlier runs may have left unblockable ones behind)
	bubble := ""
	if len(gs) > 0 {
		if m := bubbleRe.FindStringSubmatch(strings.SplitN(gs[0], "\n", 2)[0]); m != nil {
			bubble = m[1]
		}
	}
	for gi, g := range gs {
		lines := strings.Split(g, "\n")
		if len(lines) < 2 {
			continue
		}
		state := lines[0]
		if bubble != "" {
			if m := bubbleRe.FindStringSubmatch(state); m == nil || m[1] != bubble {
				continue
			}
		}
		var top, where string
		for i := 1; i+1 < len(lines); i += 2 {
			fn := strings.TrimSpace(lines[i])
			if strings.HasPrefix(fn, "created by ") {
				fn = strings.TrimPrefix(fn, "created by ")
				if j := strings.Index(fn, " in goroutine"); j >= 0 {
					fn = fn[:j]
				}
				if top == "" && libFrame(fn) {
					top = "created-by:" + fn
					where = strings.TrimSpace(lines[i+1])
				}
				continue
			}
			if m := frameRe.FindStringSubmatch(fn); m != nil {
				fn = m[1]
			}
			if top == "" && libFrame(fn) {
				top = fn
				w := strings.TrimSpace(lines[i+1])
				if j := strings.Index(w, " +0x"); j >= 0 {
					w = w[:j]
				}
				if j := strings.LastIndex(w, "/"); j >= 0 {
					w = w[j+1:]
				}
				where = w
			}
		}
		if top == "" {
			// no library frame: still a leak if it lives in this bubble, is not the
			// probing goroutine itself and is not a harness goroutine (e.g. the
			// propagation goroutine context.WithCancel starts for a foreign parent)
			if bubble == "" || gi == 0 || strings.Contains(g, "verifsim.") || strings.Contains(g, "testing/synctest.") ||
				strings.Contains(g, "internal/synctest.") || strings.Contains(g, "testing.(*T).Run") || strings.Contains(g, "testing.tRunner") {
				continue
			}
			first := ""
			if len(lines) > 1 {
				first = strings.TrimSpace(lines[1])
				if m := frameRe.FindStringSubmatch(first); m != nil {
					first = m[1]
				}
			}
			out = append(out, libGoroutine{Top: first, Where: "", Role: "other", State: state})
			continue
		}
		lg := libGoroutine{Top: top, Where: where, State: state}
		switch {
		case strings.Contains(top, "startDumpFromBinlogPosition") || strings.Contains(g, "readBinlogEvent"):
			lg.Role = "reader"
		case strings.Contains(top, "startWatcher"):
			lg.Role = "watcher"
		default:
			lg.Role = "caller"
		}
		out = append(out, lg)
	}
	return out
}

// foreignCtx is a context.Context implementation the context package does not
// know (a merged / framework context): deriving a cancellable context from it
// makes the standard library start a propagation goroutine.
type foreignCtx struct {
	mu   sync.Mutex
	done chan struct{}
	err  error
}

func newForeignCtx() *foreignCtx { return &foreignCtx{done: make(chan struct{})} }

func (c *foreignCtx) Deadline() (time.Time, bool)       { return time.Time{}, false }
func (c *foreignCtx) Done() <-chan struct{}             { return c.done }
func (c *foreignCtx) Value(key interface{}) interface{} { return nil }
func (c *foreignCtx) Err() error {
	c.mu.Lock()
	defer c.mu.Unlock()
	return c.err
}
func (c *foreignCtx) cancel() {
	c.mu.Lock()
	defer c.mu.Unlock()
	if c.err == nil {
		c.err = context.Canceled
		close(c.done)
	}
}
