package verifsim

// The controller: one simulated run = one synctest bubble in which the real
// Streamer, the real driver, the simulated master/network/mapper/handler live.
// The controller steps from quiescent point to quiescent point and draws every
// decision from the tape.

import (
	"context"
	"encoding/json"
	"fmt"
	"io"
	"net"
	"os"
	"runtime"
	"runtime/debug"
	"strings"
	"sync"
	"testing"
	"testing/synctest"
	"time"

	"github.com/Breeze0806/gobinlog"
)

// AttemptPlan describes one Stream() call of a scenario.
type AttemptPlan struct {
	Stop           stopKind
	Stream         StreamPlan
	CancelAfter    int  // cancel: not before this many dump packets were delivered
	CancelWhen     int  // 0 first chance, 1 reader holds an event, 2 handler parked, 3 mapper parked, 4 mid-packet
	CallIndex      int  // handler / mapper causes: 1-based call index within the attempt
	MiscountDelta  int  // mapper-miscount: column count delta (non-zero)
	BlockedAtStop  bool // keep the handler parked (if it is) until the stop cause has fired
	Pacing         int  // 0 far ahead, 1 lock-step, 2 mixed
	Seg            int  // 0 everything, 1 packet-aligned, 2 small random, 3 tiny, 4 mixed
	EndWithEOF     bool // clean attempts end by the master's EOF packet instead of a cancel
	FreshStreamer  bool // replica crash+restart: a new Streamer starts from the last accepted label
	NoCancelCtx    bool // the caller passes context.Background(): nothing can cancel the attempt, it ends by its cause (or by the master closing the connection)
	RewindTo       bool // before this attempt the application re-points the same Streamer to one of the end labels delivered so far (SetBinlogPosition)
	EnvPanic       bool // the failing handler / table mapper panics instead of returning its error; the application recovers around Stream
	OpenCk         int  // checksum setting of the dump's opening artificial ROTATE (see simMaster.openCk)
	SetErrVariant  int  // set-error: shape of the master's reply
	IdleAt         int  // with IdleFor > 0: the master falls silent for IdleFor (fake clock) once IdleAt packets of the dump have been delivered, then goes on
	IdleFor        time.Duration
	SlowHandler    time.Duration // > 0: one handler call of the attempt takes this long (fake clock) before it returns
	ErrWithTable   bool          // a failing table lookup returns a well-formed table together with its error
	Checkpoints    bool          // the handler records its progress on the Streamer it is called by: SetBinlogPosition(tx.NextPosition) inside the callback
	SkipRefused    bool          // the application skips the transaction its handler refused in the previous attempt: SetBinlogPosition(refused.NextPosition)
	HandshakeCut   int           // handshake-fin: bytes of the greeting that still arrive
	ErrorCalls     int           // how many times Error() is called after Stream returned (>=1)
	SkipErrorCalls bool
	StallAfterStop bool // after a cancel / handler / mapper cause the network delivers nothing more
	ImmediateError bool // the caller calls Error() right after Stream returns, on the same goroutine
	LogYield       bool // every Errorf/Infof/Print of the library is a scheduling point (parking logger)
	WriteYield     bool // writes to the master park until released (slow network towards the master)
	ForeignCtx     bool // the caller's context is not a standard-library context type
	EnvErrKind     int  // which error value the failing handler / mapper returns (0 plain, 1 context.Canceled, 2 DeadlineExceeded, 3 io.EOF, 4 wrapped cancel)
	EnvCancels     bool // a context-aware handler / mapper: the caller's context is cancelled just before it returns its error
	DebugYield     bool // Debugf calls too (several per event: yield points in the middle of event processing)
}

// Scenario is a complete simulated run.
type Scenario struct {
	Bystander    bool  // another Streamer with the same server id streams from a master of its own in the same process, all the time
	MarshalTx    bool  // C08: the consumer encodes every transaction it is given with json.Marshal
	ValuesOnly   bool  // C08: the consumer keeps only the delivered value slices, drops the Transaction, and the garbage collector runs between deliveries
	StartHigh    int64 // added to the start offset given to SetBinlogPosition (a multiple of 2^32)
	Hist         *History
	Start        Pos
	ServerID     uint32
	ReadTimeout  bool
	Scribble     bool
	LateScribble bool // C08: overwrite all retained transactions after the run, in order
	Attempts     []AttemptPlan
	StepCap      int
	FreeRun      bool // race mode: no stepping (see race.go)
}

// AttemptResult is everything observed about one attempt.
type AttemptResult struct {
	Plan                      AttemptPlan
	StartPos                  Pos // position the streamer was expected to request (bookkeeping only)
	Dialed                    bool
	Master                    *MasterLog
	StreamErr                 error
	StreamPanic               string
	Returned                  bool
	ErrorResults              []error
	ErrorBlocked              bool
	ErrorPanic                string
	Causes                    []string // causes actually injected before Stream returned, in order
	CauseStep                 int
	CauseSeq                  int // global event sequence number when the first cause fired
	CauseSeqSet               bool
	ReturnStep                int
	Hang                      bool
	HangDump                  []libGoroutine
	LeakAfterRet              []libGoroutine
	LeakAfterErr              []libGoroutine
	SocketClosed              bool // at the probe after return
	SocketClosed2             bool // at the probe after Error()
	HadConn                   bool
	ReaderHolding             bool // at the moment the cause fired
	HandlerParked             bool // at the moment the cause fired
	MidPacket                 bool
	Calls                     []*HandlerCall
	MapperCalls               []*MapperCall
	PacketsTotal              int
	PacketsDeliv              int
	Idled                     time.Duration
	EnvPanicked               bool
	PacketsAtCause            int // packets delivered when the first cause fired (final count if none did)
	Steps                     int
	SimTime                   time.Duration
	CancelBeforeErrorReturned bool
	EarlyDelivery             string
	DumpServed                Pos
	PoisonDelivered           bool // the whole column-count-change unit (C15) reached the client
	StepCapped                bool // harness step budget exhausted while progress was still being made
	PoisonRowsDelivered       bool // a rows event of the poison unit reached the client
}

// Run is the mutable state of one simulated run.
type Run struct {
	sc   *Scenario
	tape *Tape
	sch  *Stream
	key  string

	mu              sync.Mutex
	seq             int
	att             *AttemptResult
	attIdx          int
	streamActive    bool
	handlerActive   int
	parkedH         *HandlerCall
	parkedM         *MapperCall
	calls           []*HandlerCall
	Rewound         []rewind
	bystanderLog    *MasterLog
	bystanderCancel context.CancelFunc
	bystanderDone   chan struct{}
	gcRounds        int
	bulky           bool
	mapperCalls     []*MapperCall
	master          *simMaster
	conn            *simConn
	dialPlan        stopKind
	dialCount       int

	streamer *gobinlog.Streamer
	cancel   context.CancelFunc
	ctx      context.Context

	Results          []*AttemptResult
	Trace            []string
	steps            int
	accepted         []*HandlerCall // calls whose verdict was nil
	lastAcceptedNext Pos
	haveAccepted     bool
	Stability        []string // C08: differences between snapshot and live object
	LateScribble     []string // C08: sharing between retained transactions
	HarnessErr       string
	BubbleDeadlock   string
	free             *freeState
	logYield         bool
	debugYield       bool
	parkedLogs       []chan struct{}
	logParks         int
	allCancels       []context.CancelFunc
	start            time.Time
}

func (r *Run) logf(format string, a ...interface{}) {
	if len(r.Trace) < 4000 {
		r.Trace = append(r.Trace, fmt.Sprintf("s%d ", r.steps)+fmt.Sprintf(format, a...))
	}
}

func (r *Run) nextSeq() int {
	r.seq++
	return r.seq
}

// dial is called by the real driver through the registered dial function.
func (r *Run) dial(ctx context.Context) (net.Conn, error) {
	r.mu.Lock()
	defer r.mu.Unlock()
	r.dialCount++
	if r.att != nil {
		r.att.Dialed = true
	}
	if r.dialPlan == stopDialErr {
		return nil, fmt.Errorf("sim: dial refused")
	}
	if err := ctx.Err(); err != nil {
		// net.Dialer.DialContext refuses an already cancelled context
		return nil, err
	}
	if r.dialPlan == stopCancelAtDial {
		// the caller's cancel lands exactly when the TCP handshake completes:
		// the connection exists, the driver has not yet started watching ctx
		if r.att != nil {
			r.att.Causes = append(r.att.Causes, "cancel-at-dial")
		}
		r.cancel()
	}
	m := &simMaster{h: r.sc.Hist}
	if r.att != nil {
		m.plan = r.att.Plan.Stream
		m.connPlan = r.dialPlan
		m.openCk = r.att.Plan.OpenCk
		m.setErrVariant = r.att.Plan.SetErrVariant
		r.att.Master = &m.log
		r.att.HadConn = true
	}
	c := newSimConn(m)
	if r.att != nil && r.free == nil {
		c.writeYield = r.att.Plan.WriteYield
	}
	if r.dialPlan == stopDumpWriteErr {
		c.failWriteAt = 3 // handshake response, SET query, dump request
	}
	m.greet()
	if r.free != nil {
		c.auto, c.run = true, r
		if r.att != nil {
			// everything the free-running cancel trigger needs, fixed at dial time: a
			// reader that outlives its attempt must not look at the run's current one
			c.freePlan, c.freeCancel, c.freeMode = r.att.Plan, r.cancel, r.free.cancelMode
		}
		if r.dialPlan == stopHandshakeFIN && r.att != nil {
			cut := r.att.Plan.HandshakeCut
			if cut < len(c.wire) {
				c.wire = c.wire[:cut]
			}
			m.tail = stopFIN
		}
		c.flushAuto()
	}
	r.master = m
	r.conn = c
	return c, nil
}

// handler is the SendTransactionFunc given to Stream.
func (r *Run) handler(tx *gobinlog.Transaction) error {
	r.mu.Lock()
	call := &HandlerCall{Attempt: r.attIdx, Seq: r.nextSeq(), Live: tx, InsideStream: r.streamActive,
		Overlap: r.handlerActive > 0, release: make(chan error, 1)}
	if tx != nil {
		call.Snap = snapshotTx(tx)
	}
	if r.master != nil && r.conn != nil {
		call.PacketsDelivered = r.master.packetsDelivered()
	}
	if r.att != nil && r.att.Returned {
		call.AfterReturn = true
	}
	r.handlerActive++
	r.calls = append(r.calls, call)
	if r.att != nil {
		r.att.Calls = append(r.att.Calls, call)
	}
	if tx != nil && r.att != nil && r.att.Plan.Checkpoints && !r.att.Plan.EnvPanic && r.free == nil {
		// legal: the position is an atomic value; Stream stores its own position when
		// it returns, so the call changes nothing that outlives the attempt
		st := r.streamer
		np := tx.NextPosition
		r.mu.Unlock()
		st.SetBinlogPosition(np)
		r.mu.Lock()
	}
	if r.sc.MarshalTx && tx != nil && snapCells(call.Snap) < 20000 {
		// a consumer that forwards what it gets as JSON (the library's own encoder,
		// what cmd/binlogDump does): reading a transaction must not change it
		r.mu.Unlock()
		_, _ = json.Marshal(tx)
		r.mu.Lock()
		if d := snapDiff(call.Snap, snapshotTx(tx)); d != "" {
			call.MarshalNote = "encoding the delivered transaction with json.Marshal changed it: " + d
		}
	}
	if r.sc.Scribble && tx != nil {
		call.ScribbleNote = scribble(tx, call.Snap)
	}
	if r.sc.ValuesOnly && tx != nil {
		// keep the value bytes, forget the objects they hang on; whatever the library
		// ties to the lifetime of those objects (finalizers, pools) gets its chance now
		call.Kept = keepValues(tx, call.Snap)
		call.Live = nil
		if r.gcRounds < 3 {
			// (a collection costs milliseconds in a worker process: the first few
			// deliveries of a run get one, the end of the run gets two more)
			r.gcRounds++
			r.mu.Unlock()
			runtime.GC()
			for j := 0; j < 20; j++ {
				runtime.Gosched()
			}
			r.mu.Lock()
		}
	}
	r.parkedH = call
	r.mu.Unlock()
	verdict := <-call.release
	r.mu.Lock()
	r.handlerActive--
	call.Returned = true
	call.Verdict = verdict
	call.RetSeq = r.nextSeq()
	envPanic := verdict != nil && r.att != nil && r.att.Plan.EnvPanic
	r.mu.Unlock()
	if envPanic {
		panic(envPanicValue)
	}
	return verdict
}

// envPanicValue is what a panicking handler / mapper of the environment throws.
var envPanicValue = fmt.Errorf("sim: the application's callback panicked")

// keptVal is one delivered value slice the consumer holds on to.
type keptVal struct {
	data, want []byte
	where      string
}

func keepValues(tx *gobinlog.Transaction, snap *SnapTx) []keptVal {
	var out []keptVal
	for ei, e := range tx.Events {
		if e == nil || ei >= len(snap.Events) {
			continue
		}
		collect := func(kind string, rows []*gobinlog.RowData, srows [][]SnapCol) {
			for ri, r := range rows {
				if r == nil || ri >= len(srows) {
					continue
				}
				for ci, c := range r.Columns {
					if c != nil && len(c.Data) > 0 && ci < len(srows[ri]) {
						out = append(out, keptVal{c.Data, srows[ri][ci].Data, fmt.Sprintf("event %d %s row %d column %d", ei, kind, ri, ci)})
					}
				}
			}
		}
		collect("values", e.RowValues, snap.Events[ei].Values)
		collect("identifies", e.RowIdentifies, snap.Events[ei].Identifies)
	}
	return out
}

// scribble overwrites every delivered value in place, checking after each
// overwrite that the values not yet overwritten still equal their snapshot.
func scribble(tx *gobinlog.Transaction, snap *SnapTx) string {
	type ref struct {
		data []byte
		want []byte
	}
	var refs []ref
	for ei, e := range tx.Events {
		if e == nil {
			continue
		}
		collect := func(rows []*gobinlog.RowData, srows [][]SnapCol) {
			for ri, r := range rows {
				if r == nil {
					continue
				}
				for ci, c := range r.Columns {
					if c != nil && len(c.Data) > 0 {
						refs = append(refs, ref{c.Data, srows[ri][ci].Data})
					}
				}
			}
		}
		collect(e.RowValues, snap.Events[ei].Values)
		collect(e.RowIdentifies, snap.Events[ei].Identifies)
	}
	note := ""
	checkEvery := 1
	if len(refs) > 64 {
		checkEvery = len(refs) / 16
	}
	for i := range refs {
		for j := range refs[i].data {
			refs[i].data[j] = 0xEE
		}
		if note == "" && (i%checkEvery == 0 || i == len(refs)-1) {
			for k := i + 1; k < len(refs); k++ {
				if string(refs[k].data) != string(refs[k].want) {
					note = fmt.Sprintf("overwriting value %d changed value %d: %q, delivered as %q", i, k, refs[k].data, refs[k].want)
					break
				}
			}
		}
	}
	// everything else that is reachable through a pointer and could be shared:
	// statement charsets (checked one by one), then column descriptors, row and
	// event slots
	for ei, e := range tx.Events {
		if e == nil || e.Query.Charset == nil {
			continue
		}
		e.Query.Charset.Client, e.Query.Charset.Conn, e.Query.Charset.Server = -1, -1, -1
		for k := ei + 1; k < len(tx.Events) && note == ""; k++ {
			o := tx.Events[k]
			if o == nil || o.Query.Charset == nil || snap.Events[k].Charset == nil {
				continue
			}
			w := snap.Events[k].Charset
			if o.Query.Charset.Client != w[0] || o.Query.Charset.Conn != w[1] || o.Query.Charset.Server != w[2] {
				note = fmt.Sprintf("overwriting the charset of change %d changed the charset of change %d", ei, k)
			}
		}
	}
	for _, e := range tx.Events {
		if e == nil {
			continue
		}
		for _, rows := range [][]*gobinlog.RowData{e.RowValues, e.RowIdentifies} {
			for _, r := range rows {
				if r == nil {
					continue
				}
				for ci, c := range r.Columns {
					if c != nil {
						c.Filed, c.Type, c.IsEmpty, c.Data = "scribbled", 0, !c.IsEmpty, nil
					}
					r.Columns[ci] = nil
				}
			}
			for ri := range rows {
				rows[ri] = nil
			}
		}
		e.Query.SQL, e.Query.Database, e.Table.TableName = "scribbled", "scribbled", "scribbled"
	}
	for i := range tx.Events {
		tx.Events[i] = nil
	}
	tx.NowPosition.Filename, tx.NextPosition.Filename = "scribbled", "scribbled"
	tx.NowPosition.Offset, tx.NextPosition.Offset = 0, 0
	return note
}

// MysqlTable implements gobinlog.MysqlTableMapper.
func (r *Run) MysqlTable(name gobinlog.MysqlTableName) (gobinlog.MysqlTable, error) {
	r.mu.Lock()
	call := &MapperCall{Attempt: r.attIdx, Seq: r.nextSeq(), DB: name.DbName, Name: name.TableName,
		release: make(chan mapperVerdict, 1)}
	r.mapperCalls = append(r.mapperCalls, call)
	if r.att != nil {
		r.att.MapperCalls = append(r.att.MapperCalls, call)
	}
	var v mapperVerdict
	if r.free != nil {
		v = r.freeMapperVerdict(len(r.att.MapperCalls))
		r.mu.Unlock()
	} else {
		r.parkedM = call
		r.mu.Unlock()
		v = <-call.release
	}
	r.mu.Lock()
	call.Returned = true
	envPanic := v.kind == 1 && r.att != nil && r.att.Plan.EnvPanic
	if envPanic {
		call.Verdict = "error"
	}
	r.mu.Unlock()
	if envPanic {
		panic(envPanicValue)
	}
	var td *TableDef
	for _, t := range r.sc.Hist.retired {
		if t.DB == name.DbName && t.Name == name.TableName {
			td = t
		}
	}
	for _, t := range r.sc.Hist.Tables {
		if t.DB == name.DbName && t.Name == name.TableName {
			td = t
		}
	}
	switch v.kind {
	case 1:
		call.Verdict = "error"
		e := v.err
		if e == nil {
			e = errMapper
		}
		if td != nil && r.att != nil && r.att.Plan.ErrWithTable {
			// a (value, error) API may hand back both: a table description it had
			// cached and the error that says it could not be verified
			st := simTable{name: gobinlog.MysqlTableName{DbName: name.DbName, TableName: td.shownName()}}
			for i := range td.Cols {
				st.cols = append(st.cols, simColumn{td.Cols[i].Name, td.Cols[i].Unsigned})
			}
			return st, e
		}
		return nil, e
	case 2:
		call.Verdict = fmt.Sprintf("miscount%+d", v.delta)
	default:
		call.Verdict = "ok"
	}
	if td == nil {
		call.Verdict = "unknown-table"
		return nil, fmt.Errorf("sim: unknown table %s.%s", name.DbName, name.TableName)
	}
	st := simTable{name: gobinlog.MysqlTableName{DbName: name.DbName, TableName: td.shownName()}}
	n := len(td.Cols)
	if v.kind == 2 {
		n += v.delta
		if n < 0 {
			n = 0
		}
	}
	for i := 0; i < n; i++ {
		if i < len(td.Cols) {
			st.cols = append(st.cols, simColumn{td.Cols[i].Name, td.Cols[i].Unsigned})
		} else {
			st.cols = append(st.cols, simColumn{fmt.Sprintf("extra%d", i), false})
		}
	}
	return st, nil
}

func (r *Run) dsn() string {
	d := "u:p@sim(" + r.key + ")/db"
	if r.sc.ReadTimeout {
		d += "?readTimeout=30s"
	}
	return d
}

// ---------------------------------------------------------------------------

var runCounter int

// traceSteps adds one trace line per controller step (VSIM_TRACE_STEPS=1).
var traceSteps = os.Getenv("VSIM_TRACE_STEPS") == "1"

// Execute runs the scenario inside a synctest bubble and returns the run.
func Execute(t *testing.T, sc *Scenario, tape *Tape) (r *Run) {
	initEnv()
	runCounter++
	r = &Run{sc: sc, tape: tape, sch: tape.S("sched"), key: fmt.Sprintf("run%d", runCounter)}
	runsMu.Lock()
	runsByKey[r.key] = r
	runsMu.Unlock()
	defer func() {
		runsMu.Lock()
		delete(runsByKey, r.key)
		runsMu.Unlock()
	}()
	defer func() {
		if p := recover(); p != nil {
			msg := fmt.Sprint(p)
			if strings.Contains(msg, "deadlock") && r.sutStuck() {
				// a library goroutine (or an Error() call) that nothing can unblock is
				// still parked when the bubble ends: already recorded as a violation
				r.BubbleDeadlock = msg
				return
			}
			if strings.Contains(msg, "deadlock") {
				for _, a := range r.Results {
					if a.StepCapped {
						// the run was abandoned at its step budget (inconclusive, see
						// RunCase) and the teardown did not get everything unparked
						r.BubbleDeadlock = msg
						return
					}
				}
			}
			r.HarnessErr = fmt.Sprintf("bubble panic: %v", p)
		}
	}()
	activeRun.Store(r)
	defer activeRun.Store(nil)
	synctest.Test(t, func(t *testing.T) {
		r.start = time.Now()
		r.controller()
	})
	return r
}

// sutStuck reports whether the run recorded a hang, a blocked Error() call or
// a leaked library goroutine (which explains a deadlock at the end of the bubble).
func (r *Run) sutStuck() bool {
	for _, a := range r.Results {
		if a.Hang || a.ErrorBlocked || len(a.LeakAfterRet) > 0 || len(a.LeakAfterErr) > 0 {
			return true
		}
	}
	return false
}

func (r *Run) newStreamer(start Pos) {
	s, _ := gobinlog.NewStreamer(r.dsn(), r.sc.ServerID, r)
	// StartHigh: bits above the 32 the dump request can carry (Position.Offset is an
	// int64; the request holds its low 32 bits, so the master sees the same coordinate)
	s.SetBinlogPosition(gobinlog.Position{Filename: start.File, Offset: start.Off + r.sc.StartHigh})
	r.streamer = s
}

func (r *Run) controller() {
	sc := r.sc
	if sc.StepCap == 0 {
		sc.StepCap = 30000
		if n := packetCount(sc.Hist, sc.Start); n > 5000 {
			// a bulk transaction of ten thousand and more events: a few steps per packet
			sc.StepCap += 4 * n
			r.bulky = true
		}
	}
	r.newStreamer(sc.Start)
	if sc.Bystander {
		r.startBystander()
	}
	for i := range sc.Attempts {
		plan := sc.Attempts[i]
		if plan.FreshStreamer {
			st := sc.Start
			if r.haveAccepted {
				st = r.lastAcceptedNext
			}
			r.newStreamer(st)
		}
		if plan.SkipRefused && i > 0 && i-1 < len(r.Results) {
			// the label of a delivered transaction is an exact resume point (C03): an
			// application may decide to step over a transaction it cannot apply
			prev := r.Results[i-1]
			for k := len(prev.Calls) - 1; k >= 0; k-- {
				c := prev.Calls[k]
				if c.Returned && c.Verdict != nil && c.Snap != nil {
					if !plan.FreshStreamer {
						r.streamer.SetBinlogPosition(gobinlog.Position{Filename: c.Snap.Next.File, Offset: c.Snap.Next.Off})
					} else {
						r.newStreamer(c.Snap.Next)
					}
					c.Skipped = true
					r.lastAcceptedNext, r.haveAccepted = c.Snap.Next, true
					break
				}
				if c.Returned && c.Verdict == nil {
					break // only the last call of the attempt can be the refused one
				}
			}
		}
		if plan.RewindTo && i > 0 {
			var labels []Pos
			for _, c := range r.calls {
				if c.Snap != nil {
					labels = append(labels, c.Snap.Next)
				}
			}
			if len(labels) > 0 {
				l := labels[r.tape.S("resume").N(len(labels))]
				r.streamer.SetBinlogPosition(gobinlog.Position{Filename: l.File, Offset: l.Off})
				r.Rewound = append(r.Rewound, rewind{Attempt: i, Label: l})
			}
		}
		ok := r.runAttempt(i, plan)
		if !ok {
			break
		}
	}
	r.finalCleanup()
}

type rewind struct {
	Attempt int
	Label   Pos
}

// launch runs f on a fresh goroutine of the bubble and returns a flag struct.
type sutCall struct {
	done  bool
	panic string
}

func (r *Run) launch(f func()) *sutCall {
	c := &sutCall{}
	go func() {
		defer func() {
			if p := recover(); p != nil {
				r.mu.Lock()
				c.panic = fmt.Sprintf("%v\n%s", p, debug.Stack())
				r.mu.Unlock()
			}
			r.mu.Lock()
			c.done = true
			r.mu.Unlock()
		}()
		f()
	}()
	return c
}

func (c *sutCall) finished(r *Run) bool {
	r.mu.Lock()
	defer r.mu.Unlock()
	return c.done
}

// releaseHandler lets the parked handler return.
func (r *Run) releaseHandler(verdict error) {
	r.mu.Lock()
	h := r.parkedH
	r.parkedH = nil
	r.mu.Unlock()
	if h != nil {
		if verdict == nil {
			r.accepted = append(r.accepted, h)
			if h.Snap != nil {
				r.lastAcceptedNext = h.Snap.Next
				r.haveAccepted = true
			}
		}
		h.release <- verdict
	}
}

func (r *Run) releaseMapper(v mapperVerdict) {
	r.mu.Lock()
	m := r.parkedM
	r.parkedM = nil
	r.mu.Unlock()
	if m != nil {
		m.release <- v
	}
}

func (r *Run) parked() (*HandlerCall, *MapperCall) {
	r.mu.Lock()
	defer r.mu.Unlock()
	return r.parkedH, r.parkedM
}

// segment picks how many bytes to deliver next.
func (r *Run) segment(plan *AttemptPlan, avail int, dumping bool) int {
	if avail <= 0 {
		return 0
	}
	mode := plan.Seg
	if mode == 4 {
		mode = r.sch.N(4)
	}
	if r.bulky && mode >= 2 {
		mode = 1 // (byte-sized pieces of a megabyte-sized stream only burn steps)
	}
	toEnd := avail
	if dumping {
		if e := r.master.bytesToPacketEnd(); e > 0 && e < toEnd {
			toEnd = e
		}
	}
	var n int
	switch mode {
	case 0:
		n = avail
	case 1:
		n = toEnd
		if r.sch.Chance(1, 4) {
			// several packets at once, or more than the driver's buffer
			n = toEnd + r.sch.N(8192)
		}
	case 2:
		n = 1 + r.sch.N(64)
		if r.sch.Chance(1, 6) {
			n = 1 + r.sch.N(5000)
		}
	case 3:
		// tiny pieces at the start of a packet (header split), then the rest
		switch r.sch.Weighted(3, 2, 2) {
		case 0:
			n = 1 + r.sch.N(4)
		case 1:
			n = 1 + r.sch.N(23)
		case 2:
			n = toEnd
		}
	}
	if avail > 1<<16 && n < avail/64 {
		// large backlogs (jumbo events, wide rows): keep the number of steps bounded
		n = avail / 64
	}
	if n > avail {
		n = avail
	}
	if n < 1 {
		n = 1
	}
	return n
}

func (r *Run) commitsDelivered() int {
	m := r.master
	if m == nil {
		return 0
	}
	n := m.packetsDelivered()
	c := 0
	for i := 0; i < n && i < len(m.packets); i++ {
		if e := m.packets[i].ev; e != nil && e.Unit >= 0 {
			u := r.sc.Hist.Units[e.Unit]
			if u.Tx != nil && u.Tx.Commit == e && m.packets[i].kind == "event" {
				c++
			}
		}
	}
	return c
}

// runAttempt drives one Stream() call to its end. It returns false when the
// run must not continue (hang or harness trouble).
func (r *Run) runAttempt(idx int, plan AttemptPlan) bool {
	sc := r.sc
	// one schedule stream per attempt: a divergence in the tail of one attempt
	// (teardown races inside the driver) must not shift the choices of the next
	r.sch = r.tape.S(fmt.Sprintf("sched%d", idx))
	att := &AttemptResult{Plan: plan}
	r.Results = append(r.Results, att)
	r.mu.Lock()
	r.att = att
	r.attIdx = idx
	r.master, r.conn = nil, nil
	r.dialPlan = stopNone
	if plan.Stop.connPhase() {
		r.dialPlan = plan.Stop
	}
	r.mu.Unlock()
	if r.ctx == nil || r.ctx.Err() != nil || plan.FreshStreamer {
		if plan.ForeignCtx {
			fc := newForeignCtx()
			r.ctx, r.cancel = fc, fc.cancel
		} else {
			r.ctx, r.cancel = context.WithCancel(context.Background())
		}
		r.allCancels = append(r.allCancels, r.cancel)
	}
	ctx := r.ctx
	if plan.NoCancelCtx {
		ctx = context.Background()
	}
	if plan.Stop == stopCancelInHandshake && r.sch.Chance(1, 3) {
		// cancelled before Stream is even called
		r.cancel()
		att.Causes = append(att.Causes, "cancel")
		att.CauseStep = r.steps
	}
	r.logf("attempt %d: stop=%v pacing=%d seg=%d", idx, plan.Stop, plan.Pacing, plan.Seg)

	r.mu.Lock()
	r.streamActive = true
	r.mu.Unlock()
	r.mu.Lock()
	r.logYield = plan.LogYield || plan.DebugYield
	r.debugYield = plan.DebugYield
	r.mu.Unlock()
	immediateDone := false
	idled := false
	slowDone := false
	call := r.launch(func() {
		err := func() (err error) {
			if plan.EnvPanic {
				// an application that guards its Stream call: its own callback's panic
				// comes back out of Stream (after Stream's cleanup) and is recovered here
				defer func() {
					if p := recover(); p != nil {
						if p != envPanicValue {
							panic(p)
						}
						att.EnvPanicked = true
						err = envPanicValue
					}
				}()
			}
			return r.streamer.Stream(ctx, r.handler)
		}()
		r.mu.Lock()
		att.StreamErr = err
		att.Returned = true
		r.streamActive = false
		r.mu.Unlock()
		if plan.ImmediateError && !plan.SkipErrorCalls {
			e := r.streamer.Error()
			r.mu.Lock()
			att.ErrorResults = append(att.ErrorResults, e)
			immediateDone = true
			r.mu.Unlock()
		}
	})
	returned := func() bool {
		r.mu.Lock()
		defer r.mu.Unlock()
		return att.Returned
	}

	causeFired := len(att.Causes) > 0
	fire := func(name string) {
		if !causeFired {
			att.CauseStep = r.steps
			att.CauseSeq, att.CauseSeqSet = r.seq, true
			lg := probeGoroutines()
			for _, g := range lg {
				if g.Role == "reader" && !r.connReading() {
					att.ReaderHolding = true
				}
			}
			h, _ := r.parked()
			att.HandlerParked = h != nil
			if r.master != nil && r.master.phase == phDumping {
				got := r.conn.delivered - r.master.dumpBase
				mid := got > 0
				for _, p := range r.master.packets {
					if p.end == got {
						mid = false
					}
				}
				att.MidPacket = mid
				att.PacketsAtCause = r.master.packetsDelivered()
				if plan.Stop.streamComposed() && name == plan.Stop.String() {
					// noted at the first quiescent point after the packet was delivered, or
					// after Stream is already back: the canonical value is the packet's place
					att.PacketsAtCause = r.master.causeAt + 1
					att.MidPacket = false
					switch plan.Stop {
					case stopERR, stopEOF, stopInvalidEvent, stopUnsupportedEvent, stopBadSeq:
						// (what the reader and the handler were doing when the note was taken
						// depends on whether Stream was already back: not canonical either)
						att.ReaderHolding, att.HandlerParked = false, false
					}
				}
			}
		}
		causeFired = true
		att.Causes = append(att.Causes, name)
		r.logf("cause fired: %s", name)
	}
	handlerCalls, mapperCalls := 0, 0
	tailApplied := false
	idleRounds := 0
	hsCutDone := false
	streamCauseNoted := false

	for {
		synctest.Wait()
		r.steps++
		att.Steps++
		if call.finished(r) || returned() {
			break
		}
		if att.Steps > sc.StepCap {
			// the harness ran out of steps while the system was still making
			// progress: inconclusive, never a violation
			att.StepCapped = true
			r.logf("step cap reached")
			r.abortAttempt()
			return false
		}
		if !causeFired && len(att.Causes) > 0 {
			causeFired = true // injected from inside the dial function
		}
		h, m := r.parked()
		conn := r.conn
		master := r.master
		dumping := master != nil && master.phase == phDumping && len(master.log.Dumps) > 0
		wire := 0
		if conn != nil {
			wire = conn.wireLen()
		}

		if traceSteps {
			rd := false
			if conn != nil {
				rd = conn.isReading()
			}
			r.logf("state: handler-parked=%v mapper-parked=%v wire=%d reading=%v logs=%d dumping=%v fired=%v calls=%d", h != nil, m != nil, wire, rd, r.parkedLogCount(), dumping, causeFired, len(att.Calls))
		}
		// in-run invariant (C02): a delivery never precedes its commit packet
		if dumping && att.EarlyDelivery == "" {
			served := 0
			for _, c := range att.Calls {
				if c.Snap != nil {
					served++
				}
			}
			if cd := r.commitsDelivered(); served > cd {
				att.EarlyDelivery = fmt.Sprintf("%d handler invocations but only %d commit packets fully delivered", served, cd)
			}
		}

		// note stream-composed causes once their bytes are all delivered
		if dumping && plan.Stop.streamComposed() && !streamCauseNoted {
			switch plan.Stop {
			case stopERR, stopEOF, stopInvalidEvent, stopUnsupportedEvent, stopBadSeq:
				if master.packetsDelivered() > master.causeAt {
					streamCauseNoted = true
					fire(plan.Stop.String())
				}
			}
		}

		// ---- connection phase -------------------------------------------------
		if conn != nil && !dumping {
			if plan.Stop == stopHandshakeFIN && !hsCutDone {
				cut := plan.HandshakeCut
				if cut > wire {
					cut = wire
				}
				fire("handshake-fin")
				conn.deliver(cut)
				conn.mu.Lock()
				conn.wire = nil
				conn.mu.Unlock()
				conn.fin()
				hsCutDone = true
				continue
			}
			if plan.Stop == stopCancelInHandshake && !causeFired && (wire == 0 || r.sch.Chance(1, 2)) {
				fire("cancel")
				r.cancel()
				continue
			}
			if wire > 0 {
				conn.deliver(r.segment(&plan, wire, false))
				continue
			}
			if master.tail == stopFIN && !tailApplied {
				tailApplied = true
				if plan.Stop == stopAuthErr {
					fire("auth-error")
				}
				conn.fin()
				continue
			}
			if !causeFired && plan.Stop.connPhase() {
				switch plan.Stop {
				case stopSetErr:
					if len(master.log.Queries) > 0 {
						fire("set-error")
						continue
					}
				case stopDumpWriteErr:
					if conn.nWrites >= 3 {
						fire("dump-write-error")
						continue
					}
				case stopHandshakeGarbage:
					fire("handshake-garbage")
					continue
				}
			}
		}
		if conn == nil && plan.Stop == stopDialErr && !causeFired && att.Dialed {
			fire("dial-error")
			continue
		}

		// ---- planned environment causes ------------------------------------
		if h != nil {
			if handlerCalls < len(att.Calls) {
				handlerCalls = len(att.Calls)
			}
		}
		if m != nil && mapperCalls < len(att.MapperCalls) {
			mapperCalls = len(att.MapperCalls)
		}
		if plan.Stop == stopMapperErr || plan.Stop == stopMapperMiscount {
			if m != nil && len(att.MapperCalls) == plan.CallIndex && !causeFired {
				if plan.Stop == stopMapperErr {
					if plan.EnvCancels {
						fire("cancel")
						r.cancel()
					}
					fire("mapper-error")
					r.releaseMapper(mapperVerdict{kind: 1, err: envError(plan.EnvErrKind, errMapper)})
				} else {
					fire("mapper-miscount")
					r.releaseMapper(mapperVerdict{kind: 2, delta: plan.MiscountDelta})
				}
				continue
			}
		}
		if plan.Stop == stopHandlerErr && h != nil && len(att.Calls) == plan.CallIndex && !causeFired {
			// optionally let more packets arrive first so that the reader holds an event
			if plan.Pacing != 1 && wire > 0 && conn.isReading() && r.sch.Chance(2, 3) {
				conn.deliver(r.segment(&plan, wire, dumping))
				continue
			}
			if plan.EnvCancels {
				fire("cancel")
				r.cancel()
			}
			fire("handler-error")
			r.releaseHandler(envError(plan.EnvErrKind, errHandler))
			continue
		}
		if plan.Stop == stopCancel && dumping && !causeFired && master.packetsDelivered() >= minInt(plan.CancelAfter, len(master.packets)) {
			ready := false
			switch plan.CancelWhen {
			case 0:
				ready = true
			case 1:
				ready = !conn.isReading() && h != nil
				if wire == 0 && h == nil {
					ready = true // cannot be reached any more
				}
			case 2:
				ready = h != nil || (wire == 0 && h == nil && conn.isReading())
			case 3:
				ready = m != nil || (wire == 0 && m == nil && h == nil && conn.isReading())
			case 4:
				got := conn.delivered - master.dumpBase
				mid := got > 0
				for _, p := range master.packets {
					if p.end == got {
						mid = false
					}
				}
				ready = mid || wire == 0
			case 5:
				// a library goroutine sits in the logger: the parser is in the middle
				// of processing an event (or the reader between two statements)
				ready = r.parkedLogCount() > 0 || (wire == 0 && h == nil && m == nil && conn.isReading())
			}
			if ready {
				fire("cancel")
				r.cancel()
				continue
			}
		}
		if plan.Stop == stopTimeout && dumping && !causeFired && wire == 0 && h == nil && m == nil {
			fire("read-timeout")
			time.Sleep(31 * time.Second)
			continue
		}

		// ---- a quiet master --------------------------------------------------
		if plan.IdleFor > 0 && !idled && dumping && !sc.ReadTimeout && !causeFired && wire > 0 && h == nil && m == nil &&
			conn.isReading() && r.parkedLogCount() == 0 && master.packetsDelivered() >= plan.IdleAt {
			// nothing to send for minutes or hours (no heartbeats were requested); the
			// clock of the bubble advances because everything is blocked
			idled = true
			att.Idled = plan.IdleFor
			time.Sleep(plan.IdleFor)
			continue
		}

		// ---- benign actions -------------------------------------------------
		canDeliver := conn != nil && wire > 0 && !conn.isClosed()
		if plan.StallAfterStop && causeFired && dumping {
			canDeliver = false // the network has gone silent
		}
		nLogs := r.parkedLogCount()
		if plan.Stop == stopTimeout && dumping && master.packetsDelivered() >= plan.CancelAfter && !causeFired && h == nil && m == nil && conn.isReading() {
			// the master stalls here
			fire("read-timeout")
			time.Sleep(31 * time.Second)
			continue
		}
		holdHandler := plan.BlockedAtStop && !causeFired && h != nil && (canDeliver || (master != nil && master.tail != stopNone && !tailApplied))
		var acts []int // 0 deliver, 1 release handler, 2 release mapper
		if canDeliver {
			switch plan.Pacing {
			case 1: // lock-step: only when the client is waiting for the network and idle
				if h == nil && m == nil && conn.isReading() {
					acts = append(acts, 0)
				}
			default:
				acts = append(acts, 0)
			}
		}
		if h != nil && !holdHandler {
			acts = append(acts, 1)
		}
		if m != nil {
			acts = append(acts, 2)
		}
		if nLogs > 0 {
			acts = append(acts, 3)
		}
		if conn != nil && conn.writeIsParked() {
			acts = append(acts, 4)
		}
		if len(acts) == 0 && canDeliver {
			acts = append(acts, 0)
		}
		if len(acts) == 0 && h != nil {
			acts = append(acts, 1)
		}
		if len(acts) > 0 {
			idleRounds = 0
			var a int
			switch plan.Pacing {
			case 0: // far ahead: prefer delivering
				a = acts[0]
				if len(acts) > 1 && (!conn.isReading() || r.sch.Chance(1, 4)) {
					a = acts[1+r.sch.N(len(acts)-1)]
				}
			default:
				a = acts[r.sch.N(len(acts))]
			}
			switch a {
			case 0:
				n := conn.deliver(r.segment(&plan, wire, dumping))
				_ = n
			case 1:
				if plan.SlowHandler > 0 && !slowDone && !sc.ReadTimeout && r.sch.Chance(1, 2) {
					// a consumer that takes its time with one transaction (half a minute, ten
					// minutes): the reader sits on the next event all the while
					slowDone = true
					time.Sleep(plan.SlowHandler)
				}
				r.releaseHandler(nil)
			case 2:
				r.releaseMapper(mapperVerdict{})
			case 3:
				// all at once and without a tape draw: how many goroutines sit in the
				// logger during teardown depends on the driver's Close-vs-reader race
				r.releaseAllLogs()
			case 4:
				conn.releaseWrite()
			}
			continue
		}

		// ---- nothing benign is enabled --------------------------------------
		if conn != nil && master != nil && wire == 0 && master.tail != stopNone && !tailApplied {
			tailApplied = true
			if plan.Stop == stopFIN || plan.Stop == stopRST || plan.Stop == stopShortPacket {
				fire(plan.Stop.String())
			}
			switch master.tail {
			case stopFIN:
				conn.fin()
			case stopRST:
				conn.reset()
			}
			continue
		}
		if !causeFired {
			// the attempt is idle: the planned cause can no longer happen (or the
			// attempt is a clean one): end it by the caller's cancel
			if dumping || conn == nil || idleRounds > 0 {
				if plan.NoCancelCtx && conn != nil && !conn.isClosed() {
					// nobody can cancel: the master goes away instead
					fire("fin")
					conn.fin()
					continue
				}
				fire("cancel")
				r.cancel()
				continue
			}
			idleRounds++
			continue
		}
		// a cause has fired, nothing is enabled, Stream has not returned:
		// advance the clock past any deadline twice, then call it a hang
		idleRounds++
		if idleRounds <= 2 {
			time.Sleep(10 * time.Minute)
			continue
		}
		att.Hang = true
		att.HangDump = probeGoroutines()
		r.logf("stream did not return after %v", att.Causes)
		r.abortAttempt()
		return false
	}

	if len(att.Causes) == 0 && plan.Stop.connPhase() && (att.Dialed || att.HadConn) {
		// connection-phase causes act inside the first step; Stream may already be
		// back at the first quiescent point
		switch plan.Stop {
		case stopDialErr, stopHandshakeGarbage, stopSetErr, stopDumpWriteErr, stopAuthErr:
			att.Causes = append(att.Causes, plan.Stop.String())
			att.CauseStep = r.steps
		}
	}
	if len(att.Causes) == 0 && plan.Stop.streamComposed() && r.master != nil && r.master.phase == phDumping && len(r.master.packets) > 0 {
		// the packet that carries the cause was delivered in the last step and
		// Stream returned before the next quiescent point could note it
		switch plan.Stop {
		case stopERR, stopEOF, stopInvalidEvent, stopUnsupportedEvent, stopBadSeq:
			if r.master.packetsDelivered() > r.master.causeAt {
				att.Causes = append(att.Causes, plan.Stop.String())
				att.CauseStep = r.steps
				att.PacketsAtCause = r.master.causeAt + 1
			}
		}
	}
	// Stream has returned. Fair environment: goroutines parked in the logger are
	// released; an immediate Error() call gets its chance to return.
	for k := 0; k < 200; k++ {
		synctest.Wait()
		if r.releaseAllLogs() == 0 {
			break
		}
	}
	if plan.ImmediateError && !plan.SkipErrorCalls && !call.finished(r) {
		time.Sleep(10 * time.Minute)
		for k := 0; k < 200; k++ {
			synctest.Wait()
			if r.releaseAllLogs() == 0 {
				break
			}
		}
		if !call.finished(r) {
			att.ErrorBlocked = true
			att.HangDump = probeGoroutines()
			r.logf("immediate Error() call blocked")
		}
	}
	_ = immediateDone
	att.ReturnStep = r.steps
	att.StreamPanic = call.panic
	if r.master != nil {
		att.PacketsTotal = len(r.master.packets)
		att.PacketsDeliv = r.master.packetsDelivered()
		if len(att.Causes) == 0 {
			// the stream ended by itself (a value it cannot decode): how many packets
			// the network had delivered by the time Stream was back depends on the
			// driver's Close-vs-reader race and is not part of the canonical trace
			att.PacketsAtCause = -1
		}
		att.DumpServed = r.master.served
		for k := 0; k < att.PacketsDeliv && k < len(r.master.packets); k++ {
			if e := r.master.packets[k].ev; e != nil && e.Unit >= 0 && sc.Hist.Units[e.Unit].Poison {
				if e == sc.Hist.Units[e.Unit].Tx.Commit {
					att.PoisonDelivered = true
				}
				if e.Type >= evWriteRowsV1 && e.Type <= evDeleteRowsV2 && e.Type != evIncident && e.Type != evHeartbeat {
					// the rows event that cannot be decoded is the last one of the unit (a
					// column-count change has a well-formed rows event in front of it)
					var last *Event
					for _, x := range sc.Hist.Units[e.Unit].Events {
						if x.Type >= evWriteRowsV1 && x.Type <= evDeleteRowsV2 && x.Type != evIncident && x.Type != evHeartbeat {
							last = x
						}
					}
					if e == last {
						att.PoisonRowsDelivered = true
					}
				}
			}
		}
	}
	r.mu.Lock()
	stillParkedH, stillParkedM := r.parkedH, r.parkedM
	r.mu.Unlock()
	_ = stillParkedM
	if stillParkedH != nil {
		// Stream returned while the handler is still inside its call: impossible
		// for a handler that runs on the caller's goroutine, recorded anyway
		r.logf("stream returned with the handler parked")
	}
	att.LeakAfterRet = probeGoroutines()
	if r.conn != nil {
		att.SocketClosed = r.conn.isClosed()
	}
	// Error() calls
	n := plan.ErrorCalls
	if n <= 0 {
		n = 2
	}
	if plan.ImmediateError {
		n--
	}
	if !plan.SkipErrorCalls && !att.ErrorBlocked {
		for k := 0; k < n; k++ {
			var res error
			ec := r.launch(func() { res = r.streamer.Error() })
			for j := 0; j < 200; j++ {
				synctest.Wait()
				if r.releaseAllLogs() == 0 {
					break
				}
			}
			r.steps++
			if !ec.finished(r) {
				// give timers a chance, then declare it blocked
				time.Sleep(10 * time.Minute)
				synctest.Wait()
			}
			if !ec.finished(r) {
				att.ErrorBlocked = true
				att.HangDump = probeGoroutines()
				r.logf("Error() call %d blocked", k+1)
				break
			}
			if ec.panic != "" {
				att.ErrorPanic = ec.panic
				break
			}
			att.ErrorResults = append(att.ErrorResults, res)
		}
	}
	att.LeakAfterErr = probeGoroutines()
	if r.conn != nil {
		att.SocketClosed2 = r.conn.isClosed()
	}
	att.SimTime = time.Since(r.start)
	if att.ErrorBlocked {
		r.abortAttempt()
		return false
	}
	return true
}

func (r *Run) connReading() bool {
	if r.conn == nil {
		return false
	}
	return r.conn.isReading()
}

// abortAttempt unblocks everything so that the bubble can end.
func (r *Run) abortAttempt() {
	for _, c := range r.allCancels {
		c()
	}
	for i := 0; i < 5000; i++ {
		synctest.Wait()
		h, m := r.parked()
		if h != nil {
			r.releaseHandler(errHandler)
			continue
		}
		if m != nil {
			r.releaseMapper(mapperVerdict{kind: 1})
			continue
		}
		if r.releaseAllLogs() > 0 {
			continue
		}
		if r.conn != nil && !r.conn.isClosed() {
			r.conn.reset()
			r.conn.mu.Lock()
			r.conn.closed = true
			r.conn.wakeLocked()
			r.conn.mu.Unlock()
			continue
		}
		break
	}
}

// ---------------------------------------------------------------------------
// bystander: a second Streamer of the same process. It has the same server id
// (legal: it talks to another master), a master of its own that serves the same
// history free-running, a handler that accepts everything. It is started before
// the first attempt, reads its whole stream, and then sits in its dump until the
// end of the run. Whatever the library shares between Streamer objects shows up
// in the requests and deliveries of the Streamer under test.

type bystanderMapper struct{ h *History }

func (b bystanderMapper) MysqlTable(name gobinlog.MysqlTableName) (gobinlog.MysqlTable, error) {
	var td *TableDef
	for _, t := range append(append([]*TableDef{}, b.h.retired...), b.h.Tables...) {
		if t.DB == name.DbName && t.Name == name.TableName {
			td = t
		}
	}
	if td == nil {
		return nil, fmt.Errorf("sim: unknown table %s.%s", name.DbName, name.TableName)
	}
	st := simTable{name: name}
	for i := range td.Cols {
		st.cols = append(st.cols, simColumn{td.Cols[i].Name, td.Cols[i].Unsigned})
	}
	return st, nil
}

func (r *Run) dialBystander(ctx context.Context) (net.Conn, error) {
	m := &simMaster{h: r.sc.Hist}
	c := newSimConn(m)
	c.auto = true
	m.greet()
	c.mu.Lock()
	c.flushAuto()
	c.mu.Unlock()
	r.mu.Lock()
	r.bystanderLog = &m.log
	r.mu.Unlock()
	return c, nil
}

func (r *Run) startBystander() {
	runsMu.Lock()
	runsByKey[r.key+"-bystander"] = r
	runsMu.Unlock()
	s, err := gobinlog.NewStreamer("u:p@sim("+r.key+"-bystander)/db", r.sc.ServerID, bystanderMapper{r.sc.Hist})
	if err != nil {
		r.HarnessErr = "bystander: " + err.Error()
		return
	}
	h := r.sc.Hist
	s.SetBinlogPosition(gobinlog.Position{Filename: h.Files[0].Name, Offset: 4})
	ctx, cancel := context.WithCancel(context.Background())
	r.bystanderCancel = cancel
	r.bystanderDone = make(chan struct{})
	go func() {
		defer close(r.bystanderDone)
		s.Stream(ctx, func(*gobinlog.Transaction) error { return nil })
		s.Error()
	}()
	synctest.Wait() // it has read everything its master had and waits for more
}

func (r *Run) stopBystander() {
	if r.bystanderCancel == nil {
		return
	}
	r.mu.Lock()
	r.logYield, r.debugYield = false, false
	r.mu.Unlock()
	r.bystanderCancel()
	synctest.Wait()
	r.releaseAllLogs()
	synctest.Wait()
	select {
	case <-r.bystanderDone:
	default:
	}
	runsMu.Lock()
	delete(runsByKey, r.key+"-bystander")
	runsMu.Unlock()
}

func (r *Run) finalCleanup() {
	r.stopBystander()
	if r.sc.ValuesOnly {
		for k := 0; k < 2; k++ {
			runtime.GC()
			for j := 0; j < 50; j++ {
				runtime.Gosched()
			}
		}
		for i, c := range r.calls {
			for _, kv := range c.Kept {
				if string(kv.data) != string(kv.want) {
					r.Stability = append(r.Stability, fmt.Sprintf("delivery %d: a value the consumer kept (%s) changed after the Transaction it came in was dropped: %q, delivered as %q", i, kv.where, clip(kv.data, 40), clip(kv.want, 40)))
					break
				}
			}
			if len(r.Stability) > 0 {
				break
			}
		}
	}
	// C08 stability: every retained live transaction still equals its snapshot
	if !r.sc.Scribble {
		for i, c := range r.calls {
			if c.Live != nil && c.Snap != nil {
				if d := snapDiff(c.Snap, snapshotTx(c.Live)); d != "" {
					r.Stability = append(r.Stability, fmt.Sprintf("delivery %d changed after it was handed over: %s", i, d))
				}
			}
		}
		// late overwriting consumer: every retained transaction is overwritten in
		// delivery order after the stream has ended; a transaction not yet
		// overwritten must still equal its snapshot (sharing between transactions)
		if r.sc.LateScribble && len(r.Stability) == 0 {
			for i, c := range r.calls {
				if c.Live == nil || c.Snap == nil {
					continue
				}
				if d := snapDiff(c.Snap, snapshotTx(c.Live)); d != "" {
					r.LateScribble = append(r.LateScribble, fmt.Sprintf("overwriting earlier deliveries changed delivery %d: %s", i, d))
					break
				}
				if n := scribble(c.Live, c.Snap); n != "" {
					r.LateScribble = append(r.LateScribble, fmt.Sprintf("delivery %d: %s", i, n))
					break
				}
			}
		}
	}
	if r.cancel != nil {
		r.cancel()
	}
	r.abortAttempt()
	synctest.Wait()
}

func minInt(a, b int) int {
	if a < b {
		return a
	}
	return b
}

// ---------------------------------------------------------------------------
// parking logger: the library's log sink is a seam the simulator owns, so each
// Errorf/Infof/Print call of a library goroutine can be made a scheduling point

func (r *Run) parkInLogger() {
	r.mu.Lock()
	if !r.logYield || r.free != nil {
		r.mu.Unlock()
		return
	}
	ch := make(chan struct{})
	r.parkedLogs = append(r.parkedLogs, ch)
	r.logParks++
	r.mu.Unlock()
	<-ch
}

func (r *Run) parkedLogCount() int {
	r.mu.Lock()
	defer r.mu.Unlock()
	return len(r.parkedLogs)
}

func (r *Run) releaseLog(i int) {
	r.mu.Lock()
	if i >= len(r.parkedLogs) {
		r.mu.Unlock()
		return
	}
	ch := r.parkedLogs[i]
	r.parkedLogs = append(r.parkedLogs[:i:i], r.parkedLogs[i+1:]...)
	r.mu.Unlock()
	close(ch)
}

func (r *Run) releaseAllLogs() int {
	r.mu.Lock()
	chs := r.parkedLogs
	r.parkedLogs = nil
	conn := r.conn
	r.mu.Unlock()
	for _, ch := range chs {
		close(ch)
	}
	n := len(chs)
	if conn != nil && conn.releaseWrite() {
		n++ // a parked write is released together with parked log calls (fair environment)
	}
	return n
}

// release drops the large buffers of a finished run (history copies on the
// wire, retained live transactions) so that long worker processes stay small.
func (r *Run) release() {
	for _, c := range r.calls {
		c.Live = nil
	}
	if r.master != nil {
		r.master.packets = nil
		r.master.inbuf = nil
	}
	if r.conn != nil {
		r.conn.mu.Lock()
		r.conn.wire, r.conn.inbox = nil, nil
		r.conn.mu.Unlock()
	}
	r.master, r.conn, r.streamer = nil, nil, nil
}

// envError picks the error value a failing handler / mapper returns: values
// that coincide with what the library uses internally to classify stream ends
// must still be reported as failures.
func envError(kind int, plain error) error {
	switch kind {
	case 1:
		return context.Canceled
	case 2:
		return context.DeadlineExceeded
	case 3:
		return io.EOF
	case 4:
		return fmt.Errorf("downstream: %w", context.Canceled)
	}
	return plain
}
