package verifsim

// Independent binlog event encoder, written from the MySQL binlog format
// documentation. Nothing from /repo is used to build inputs.

import (
	"encoding/binary"
	"hash/crc32"
)

// MySQL binlog event type codes.
const (
	evQuery          = 2
	evStop           = 3
	evRotate         = 4
	evIntVar         = 5
	evRand           = 13
	evUserVar        = 14
	evFormatDesc     = 15
	evXID            = 16
	evTableMap       = 19
	evWriteRowsV1    = 23
	evUpdateRowsV1   = 24
	evDeleteRowsV1   = 25
	evIncident       = 26
	evHeartbeat      = 27
	evIgnorable      = 28
	evRowsQuery      = 29
	evWriteRowsV2    = 30
	evUpdateRowsV2   = 31
	evDeleteRowsV2   = 32
	evGTID           = 33
	evAnonymousGTID  = 34
	evPreviousGTIDs  = 35
	evTxContext      = 36
	evViewChange     = 37
	evXAPrepare      = 38
	flagArtificial   = 0x20
	checksumOff      = 0
	checksumCRC32    = 1
	binlogHeaderSize = 19
)

// Event is one binlog event with its exact place in its file.
type Event struct {
	Type      byte
	Timestamp uint32
	ServerID  uint32
	Flags     uint16
	Body      []byte // everything after the 19-byte header, without checksum
	File      int    // index of the binlog file
	Offset    uint32 // start offset in the file
	End       uint32 // end offset (= next_position header field)
	Raw       []byte // encoded event as stored in the file (with checksum when enabled)
	Desc      string // human readable
	Unit      int    // index of the unit it belongs to (-1: file furniture)
}

func le16(b []byte, v uint16) []byte { return append(b, byte(v), byte(v>>8)) }
func le32(b []byte, v uint32) []byte {
	return append(b, byte(v), byte(v>>8), byte(v>>16), byte(v>>24))
}
func le64(b []byte, v uint64) []byte {
	for i := 0; i < 8; i++ {
		b = append(b, byte(v>>(8*uint(i))))
	}
	return b
}
func leN(b []byte, v uint64, n int) []byte {
	for i := 0; i < n; i++ {
		b = append(b, byte(v>>(8*uint(i))))
	}
	return b
}
func beN(b []byte, v uint64, n int) []byte {
	for i := n - 1; i >= 0; i-- {
		b = append(b, byte(v>>(8*uint(i))))
	}
	return b
}

// lenenc appends a MySQL length-encoded integer.
func lenenc(b []byte, v uint64) []byte {
	switch {
	case v < 251:
		return append(b, byte(v))
	case v < 1<<16:
		return append(b, 0xfc, byte(v), byte(v>>8))
	case v < 1<<24:
		return append(b, 0xfd, byte(v), byte(v>>8), byte(v>>16))
	default:
		b = append(b, 0xfe)
		return le64(b, v)
	}
}

// encodeEvent renders header + body (+ CRC32 when withChecksum).
func encodeEvent(ts uint32, typ byte, serverID uint32, nextPos uint32, flags uint16, body []byte, withChecksum bool) []byte {
	total := binlogHeaderSize + len(body)
	if withChecksum {
		total += 4
	}
	out := make([]byte, 0, total)
	out = le32(out, ts)
	out = append(out, typ)
	out = le32(out, serverID)
	out = le32(out, uint32(total))
	out = le32(out, nextPos)
	out = le16(out, flags)
	out = append(out, body...)
	if withChecksum {
		c := crc32.ChecksumIEEE(out)
		out = le32(out, c)
	}
	return out
}

// patchNextPos rewrites the next_position field (and the checksum) of an
// already encoded event; the dump thread does this to the format description
// event when the replica starts in the middle of a file.
func patchNextPos(raw []byte, nextPos uint32, withChecksum bool) []byte {
	out := append([]byte(nil), raw...)
	binary.LittleEndian.PutUint32(out[13:17], nextPos)
	if withChecksum {
		c := crc32.ChecksumIEEE(out[:len(out)-4])
		binary.LittleEndian.PutUint32(out[len(out)-4:], c)
	}
	return out
}

// formatParams describes what the format description event announces.
type formatParams struct {
	ServerVersion string
	NumTypes      int  // number of entries in the post-header length table
	Checksum      bool // CRC32 on every event
	TableID4      bool // 4-byte table ids (post-header length 6 for table map / rows v1)
	PadBits       int  // unused bits of the last bitmap byte set to 1: 0 never, 1 row NULL bitmaps, 2 + columns-present bitmaps, 3 + table-map nullability bitmap
}

// postHeaderLen returns the realistic post-header length for an event type.
func (f formatParams) postHeaderLen(typ int) byte {
	switch typ {
	case 1: // START_EVENT_V3
		return 56
	case evQuery:
		return 13
	case evStop:
		return 0
	case evRotate:
		return 8
	case evIntVar:
		return 0
	case 6: // LOAD
		return 18
	case 8: // CREATE_FILE
		return 4
	case 9: // APPEND_BLOCK
		return 4
	case 10: // EXEC_LOAD
		return 4
	case 11: // DELETE_FILE
		return 4
	case 12: // NEW_LOAD
		return 18
	case evFormatDesc:
		return byte(2 + 50 + 4 + 1 + f.NumTypes)
	case 17: // BEGIN_LOAD_QUERY
		return 4
	case 18: // EXECUTE_LOAD_QUERY
		return 26
	case evTableMap:
		if f.TableID4 {
			return 6
		}
		return 8
	case 20, 21, 22:
		return 0
	case evWriteRowsV1, evUpdateRowsV1, evDeleteRowsV1:
		if f.TableID4 {
			return 6
		}
		return 8
	case evIncident:
		return 2
	case evWriteRowsV2, evUpdateRowsV2, evDeleteRowsV2:
		return 10
	case evGTID, evAnonymousGTID:
		if f.NumTypes >= 38 {
			return 42
		}
		return 25
	case evTxContext:
		return 18
	case evViewChange:
		return 52
	}
	return 0
}

// fdeBody builds the body of a FORMAT_DESCRIPTION_EVENT. The 4 checksum bytes
// that a checksum-aware server always appends are added by the caller through
// encodeEvent(withChecksum=true).
func fdeBody(f formatParams, created uint32) []byte {
	b := make([]byte, 0, 128)
	b = le16(b, 4)
	ver := make([]byte, 50)
	copy(ver, f.ServerVersion)
	b = append(b, ver...)
	b = le32(b, created)
	b = append(b, binlogHeaderSize)
	for t := 1; t <= f.NumTypes; t++ {
		b = append(b, f.postHeaderLen(t))
	}
	if f.Checksum {
		b = append(b, checksumCRC32)
	} else {
		b = append(b, checksumOff)
	}
	return b
}

func rotateBody(pos uint64, file string) []byte {
	b := le64(nil, pos)
	return append(b, file...)
}

// statusVars is the status-variable block of a QUERY_EVENT.
type queryParams struct {
	ThreadID  uint32
	ExecTime  uint32
	ErrorCode uint16
	Vars      []byte
	DB        string
	SQL       string
}

func queryBody(q queryParams) []byte {
	b := make([]byte, 0, 32+len(q.Vars)+len(q.DB)+len(q.SQL))
	b = le32(b, q.ThreadID)
	b = le32(b, q.ExecTime)
	b = append(b, byte(len(q.DB)))
	b = le16(b, q.ErrorCode)
	b = le16(b, uint16(len(q.Vars)))
	b = append(b, q.Vars...)
	b = append(b, q.DB...)
	b = append(b, 0)
	b = append(b, q.SQL...)
	return b
}

// tableMapBody encodes a TABLE_MAP_EVENT body.
func tableMapBody(f formatParams, tableID uint64, flags uint16, db, name string,
	types []byte, meta []byte, nullable []bool, optional []byte) []byte {
	b := make([]byte, 0, 64+len(types)*3)
	if f.TableID4 {
		b = leN(b, tableID, 4)
	} else {
		b = leN(b, tableID, 6)
	}
	b = le16(b, flags)
	b = append(b, byte(len(db)))
	b = append(b, db...)
	b = append(b, 0)
	b = append(b, byte(len(name)))
	b = append(b, name...)
	b = append(b, 0)
	b = lenenc(b, uint64(len(types)))
	b = append(b, types...)
	b = lenenc(b, uint64(len(meta)))
	b = append(b, meta...)
	b = append(b, packBitsPad(nullable, f.PadBits >= 3)...)
	b = append(b, optional...)
	return b
}

// packBits packs booleans LSB first, (n+7)/8 bytes.
func packBits(bits []bool) []byte { return packBitsPad(bits, false) }

// packBitsPad: the unused bits of the last byte are zero or (ones) all set. The
// server's row packer starts every NULL byte from 0xff, so set padding bits are
// what a real binlog holds; nothing may depend on them either way.
func packBitsPad(bits []bool, ones bool) []byte {
	out := make([]byte, (len(bits)+7)/8)
	for i, v := range bits {
		if v {
			out[i/8] |= 1 << (uint(i) & 7)
		}
	}
	if ones && len(bits)%8 != 0 {
		out[len(out)-1] |= byte(0xff << (uint(len(bits)) & 7))
	}
	return out
}

// rowsBodyHeader encodes the part of a rows event that precedes the rows.
func rowsBodyHeader(f formatParams, v2 bool, tableID uint64, flags uint16, extra []byte,
	ncols int, bitmaps ...[]bool) []byte {
	b := make([]byte, 0, 64)
	if f.TableID4 {
		b = leN(b, tableID, 4)
	} else {
		b = leN(b, tableID, 6)
	}
	b = le16(b, flags)
	if v2 {
		b = le16(b, uint16(2+len(extra)))
		b = append(b, extra...)
	}
	b = lenenc(b, uint64(ncols))
	for _, bm := range bitmaps {
		b = append(b, packBitsPad(bm, f.PadBits >= 2)...)
	}
	return b
}
