package verifsim

// Race mode: the C05 scenarios executed free-running (no quiescence stepping,
// which would add happens-before edges and hide races) in a binary built with
// -race. Triggers are embedded in the parties: the transport cancels when the
// reader has consumed packet k, the handler fails or cancels on its j-th call,
// the master's stream carries its own ERR/EOF/FIN/RST.

import (
	"context"
	"fmt"
	"regexp"
	"runtime"
	"sort"
	"strings"
	"sync/atomic"
	"time"

	"github.com/Breeze0806/gobinlog"
)

// freeState is the extra state of a free-running run.
type freeState struct {
	cancelAtByte int64 // consumed-byte threshold in the dump stream; <0 = none
	cancelMode   int   // 0 sync in Read, 1 async goroutine, 2 from the handler
	fired        atomic.Bool
}

// flushAuto (conn.mu held): in free-running mode everything the master emits
// is available to the client at once; the tail applies when the wire is empty.
func (c *simConn) flushAuto() {
	if len(c.wire) > 0 {
		c.inbox = append(c.inbox, c.wire...)
		c.delivered += len(c.wire)
		c.wire = nil
	}
	switch c.master.tail {
	case stopFIN:
		c.finRx = true
	case stopRST:
		c.rstPending = true
	}
	c.wakeLocked()
}

// ExecuteFree runs a scenario without stepping. It returns a short outcome
// description (functional oracles are decided in stepped mode).
func ExecuteFree(sc *Scenario, tape *Tape) string {
	initEnv()
	runCounter++
	r := &Run{sc: sc, tape: tape, sch: tape.S("sched"), key: fmt.Sprintf("free%d", runCounter), free: &freeState{cancelAtByte: -1}}
	runsMu.Lock()
	runsByKey[r.key] = r
	runsMu.Unlock()
	defer func() {
		runsMu.Lock()
		delete(runsByKey, r.key)
		runsMu.Unlock()
	}()
	r.newStreamer(sc.Start)
	out := ""
	for i, plan := range sc.Attempts {
		att := &AttemptResult{Plan: plan}
		r.mu.Lock()
		r.Results = append(r.Results, att)
		r.att = att
		r.attIdx = i
		r.master, r.conn = nil, nil
		r.dialPlan = stopNone
		if plan.Stop.connPhase() {
			r.dialPlan = plan.Stop
		}
		r.free.fired.Store(false)
		r.free.cancelMode = r.sch.N(3)
		r.mu.Unlock()
		ctx, cancel := context.WithCancel(context.Background())
		r.mu.Lock()
		r.ctx, r.cancel = ctx, cancel
		r.mu.Unlock()
		if plan.Stop == stopCancelInHandshake {
			if r.sch.Chance(1, 2) {
				go func() {
					for k := 0; k < 3; k++ {
						runtime.Gosched()
					}
					cancel()
				}()
			}
		}
		done := make(chan error, 1)
		go func() {
			defer func() {
				// the application's own callback panicked (plan.EnvPanic) and the
				// application recovers around its Stream call
				if p := recover(); p != nil {
					if p != envPanicValue {
						panic(p)
					}
					done <- envPanicValue
				}
			}()
			done <- r.streamer.Stream(ctx, r.freeHandler)
		}()
		var serr error
		select {
		case serr = <-done:
		case <-time.After(200 * time.Millisecond):
			// the environment of a clean / unreachable cause: end by cancel
			cancel()
			select {
			case serr = <-done:
			case <-time.After(5 * time.Second):
				out += fmt.Sprintf("attempt %d: stream did not return; ", i)
				return out
			}
		}
		if plan.SkipErrorCalls && i < len(sc.Attempts)-1 {
			// Error() is optional: a caller that goes straight to the next Stream call
			// leaves no happens-before edge between this attempt's reader and the next
			out += fmt.Sprintf("attempt %d: %v stream=%v (Error() not called); ", i, plan.Stop, serr != nil)
			cancel()
			continue
		}
		edone := make(chan error, 1)
		go func() { edone <- r.streamer.Error() }()
		select {
		case e := <-edone:
			out += fmt.Sprintf("attempt %d: %v stream=%v error=%v; ", i, plan.Stop, serr != nil, e != nil)
		case <-time.After(2 * time.Second):
			out += fmt.Sprintf("attempt %d: Error() blocked; ", i)
			cancel()
			return out
		}
		cancel()
	}
	return out
}

// freeHandler: no parking; verdict by call index; may cancel the context.
func (r *Run) freeHandler(tx *gobinlog.Transaction) error {
	r.mu.Lock()
	att := r.att
	att.Calls = append(att.Calls, &HandlerCall{})
	n := len(att.Calls)
	plan := att.Plan
	cancel := r.cancel
	r.mu.Unlock()
	if plan.Pacing == 0 {
		// a slow consumer: let the reader get ahead
		for k := 0; k < 4; k++ {
			runtime.Gosched()
		}
	}
	if plan.Stop == stopHandlerErr && n == plan.CallIndex {
		if plan.EnvPanic {
			panic(envPanicValue)
		}
		return errHandler
	}
	if plan.Stop == stopCancel && r.free.cancelMode == 2 && n >= 1+plan.CancelAfter/4 {
		cancel()
	}
	return nil
}

// freeMapper verdict for the free-running mode.
func (r *Run) freeMapperVerdict(call int) mapperVerdict {
	plan := r.att.Plan
	if plan.Stop == stopMapperErr && call == plan.CallIndex {
		return mapperVerdict{kind: 1}
	}
	if plan.Stop == stopMapperMiscount && call == plan.CallIndex {
		return mapperVerdict{kind: 2, delta: plan.MiscountDelta}
	}
	return mapperVerdict{}
}

// onConsumed is called by simConn.Read (free-running mode) with conn.mu held. It
// reads only what was fixed on the connection at dial time.
func (r *Run) onConsumed(c *simConn) {
	if c.freeCancel == nil || c.freePlan.Stop != stopCancel || c.freeMode == 2 || c.freeFired {
		return
	}
	m := c.master
	if m == nil || m.phase != phDumping || len(m.packets) == 0 {
		return
	}
	k := c.freePlan.CancelAfter
	if k >= len(m.packets) {
		k = len(m.packets) - 1
	}
	if k < 0 {
		k = 0
	}
	if c.consumed-m.dumpBase >= m.packets[k].end {
		c.freeFired = true
		if c.freeMode == 0 {
			c.freeCancel()
		} else {
			go c.freeCancel()
		}
	}
}

// ---------------------------------------------------------------------------
// race report parsing

// RaceReport is one parsed "WARNING: DATA RACE" block.
type RaceReport struct {
	Signature string
	A, B      string // first library frame of each access stack
	ViaA      string
	ViaB      string
	Text      string
	Marker    string
	Harness   bool // one of the two accesses is harness code
}

var raceFuncRe = regexp.MustCompile(`^  (\S+)\(`)

// stdFrame: a frame of the Go runtime or standard library (the first element of
// its package path has no dot and it is not the harness itself). A library
// function spinning around strings.Index is still a library spin.
func stdFrame(l string) bool {
	first := l
	if i := strings.Index(first, "/"); i >= 0 {
		first = first[:i]
	} else if i := strings.Index(first, "."); i >= 0 {
		first = first[:i]
	}
	if first == "verifsim" || first == "main" || first == "" {
		return false
	}
	return !strings.Contains(first, ".")
}

// accessInHarness: the racing memory access itself (innermost frame that is not
// runtime / standard library) is harness code, e.g. a simulated connection's Read
// called by a library goroutine. Such a report is the harness's own race.
func accessInHarness(stack []string) bool {
	copying := false
	for i, fn := range stack {
		if stdFrame(fn) {
			if strings.HasPrefix(fn, "runtime.slicecopy") || strings.HasPrefix(fn, "runtime.memmove") {
				copying = true
			}
			continue
		}
		if copying && !libFrame(fn) {
			// the simulated socket (or the simulated master behind its Write) copying
			// into / out of the buffer the driver passed in: the memory is the driver's,
			// as with a real socket. Only if the chain of harness frames ends in the
			// socket's Read / Write, though.
			for _, up := range stack[i:] {
				if libFrame(up) {
					break
				}
				if strings.HasSuffix(up, "(*simConn).Read") || strings.HasSuffix(up, "(*simConn).Write") {
					return false
				}
			}
			return true
		}
		return !libFrame(fn)
	}
	return true
}

func firstLibFrame(stack []string) (top string, via string) {
	for _, fn := range stack {
		if top == "" && libFrame(fn) {
			top = fn
		}
	}
	for _, fn := range stack {
		// call sites are named after the driver's own (stable) entry points, not
		// after gobinlog functions a refactoring may rename
		switch {
		case strings.HasSuffix(fn, "(*mysqlConn).Close"), strings.HasSuffix(fn, "(*DumpConn).Close"):
			return top, "driver Close"
		case strings.HasSuffix(fn, "(*DumpConn).ReadPacket"), strings.HasSuffix(fn, "(*mysqlConn).readPacket"):
			return top, "driver ReadPacket"
		}
	}
	for i := len(stack) - 1; i >= 0; i-- {
		if libFrame(stack[i]) {
			return top, shortFunc(stack[i])
		}
	}
	return top, ""
}

func shortFunc(fn string) string {
	if i := strings.LastIndex(fn, "/"); i >= 0 {
		fn = fn[i+1:]
	}
	return fn
}

// parseRaceLog extracts the race reports from a worker's stderr.
func parseRaceLog(log string) []RaceReport {
	var out []RaceReport
	marker := ""
	lines := strings.Split(log, "\n")
	for i := 0; i < len(lines); i++ {
		if strings.HasPrefix(lines[i], "RACE-RUN ") {
			marker = strings.TrimPrefix(lines[i], "RACE-RUN ")
			continue
		}
		if !strings.HasPrefix(lines[i], "WARNING: DATA RACE") {
			continue
		}
		j := i + 1
		var stacks [][]string
		var cur []string
		inAccess := false
		for ; j < len(lines) && !strings.HasPrefix(lines[j], "=================="); j++ {
			l := lines[j]
			switch {
			case strings.HasPrefix(l, "Read at"), strings.HasPrefix(l, "Write at"), strings.HasPrefix(l, "Previous read at"),
				strings.HasPrefix(l, "Previous write at"), strings.HasPrefix(l, "Atomic"), strings.HasPrefix(l, "Previous atomic"):
				if inAccess {
					stacks = append(stacks, cur)
				}
				cur, inAccess = nil, true
			case strings.HasPrefix(l, "Goroutine "):
				if inAccess {
					stacks = append(stacks, cur)
				}
				cur, inAccess = nil, false
			case inAccess:
				if m := raceFuncRe.FindStringSubmatch(l); m != nil {
					cur = append(cur, m[1])
				}
			}
		}
		if inAccess {
			stacks = append(stacks, cur)
		}
		text := strings.Join(lines[i:minInt(j, i+80)], "\n")
		rr := RaceReport{Text: text, Marker: marker}
		if len(stacks) >= 2 {
			rr.A, rr.ViaA = firstLibFrame(stacks[0])
			rr.B, rr.ViaB = firstLibFrame(stacks[1])
			rr.Harness = accessInHarness(stacks[0]) || accessInHarness(stacks[1])
		}
		sides := []string{shortFunc(rr.A) + " via " + rr.ViaA, shortFunc(rr.B) + " via " + rr.ViaB}
		sort.Strings(sides)
		rr.Signature = sides[0] + " x " + sides[1]
		out = append(out, rr)
		i = j
	}
	return out
}
