package verifsim

// simConn: the in-memory net.Conn the real driver talks through. The
// controller owns when bytes move from the master's wire to the client.

import (
	"context"
	"errors"
	"io"
	"net"
	"sync"
	"time"
)

type simAddr struct{}

func (simAddr) Network() string { return "sim" }
func (simAddr) String() string  { return "sim" }

type timeoutError struct{}

func (timeoutError) Error() string   { return "sim: i/o timeout" }
func (timeoutError) Timeout() bool   { return true }
func (timeoutError) Temporary() bool { return true }

var (
	errSimReset  = errors.New("sim: connection reset by peer")
	errSimClosed = errors.New("sim: use of closed network connection")
	errSimWrite  = errors.New("sim: broken pipe")
)

type simConn struct {
	freePlan   AttemptPlan // free-running mode: plan, cancel function and cancel mode of the attempt that dialled
	freeCancel context.CancelFunc
	freeMode   int
	freeFired  bool // (conn.mu)
	mu         sync.Mutex
	master     *simMaster
	wire       []byte // emitted by the master, not yet delivered to the client
	inbox      []byte // delivered, not yet read by the client
	readWake   chan struct{}
	reading    bool // a Read is parked
	finRx      bool // master closed: reads drain, then EOF
	rst        bool
	closed     bool // client closed
	rdl        time.Time
	wdl        time.Time

	writeYield  bool          // Write parks until released by the controller
	writeParked chan struct{} // non-nil while a Write is parked
	auto        bool          // free-running mode: the wire is delivered at once
	rstPending  bool          // free-running mode: reset once the inbox is drained
	consumed    int           // bytes the client has read
	run         *Run

	failWriteAt       int // fail the n-th client write (1-based), 0 = never
	nWrites           int
	delivered         int // total bytes delivered to the client
	readCalls         int
	closeCalls        int
	readAfterCloseErr int
}

func newSimConn(m *simMaster) *simConn {
	c := &simConn{master: m}
	m.conn = c
	return c
}

func (c *simConn) wakeLocked() {
	if c.readWake != nil {
		close(c.readWake)
		c.readWake = nil
	}
}

func (c *simConn) Read(p []byte) (int, error) {
	for {
		c.mu.Lock()
		c.readCalls++
		if c.closed {
			c.mu.Unlock()
			return 0, errSimClosed
		}
		if len(c.inbox) > 0 {
			n := copy(p, c.inbox)
			c.inbox = c.inbox[n:]
			c.consumed += n
			if c.auto && c.run != nil {
				c.run.onConsumed(c)
			}
			c.mu.Unlock()
			return n, nil
		}
		if c.rstPending {
			c.rst = true
		}
		if c.rst {
			c.mu.Unlock()
			return 0, errSimReset
		}
		if c.finRx {
			c.mu.Unlock()
			return 0, io.EOF
		}
		var tc <-chan time.Time
		var tm *time.Timer
		if !c.rdl.IsZero() {
			d := time.Until(c.rdl)
			if d <= 0 {
				c.mu.Unlock()
				return 0, timeoutError{}
			}
			tm = time.NewTimer(d)
			tc = tm.C
		}
		if c.readWake == nil {
			c.readWake = make(chan struct{})
		}
		w := c.readWake
		c.reading = true
		c.mu.Unlock()
		select {
		case <-w:
		case <-tc:
		}
		if tm != nil {
			tm.Stop()
		}
		c.mu.Lock()
		c.reading = false
		c.mu.Unlock()
	}
}

func (c *simConn) Write(p []byte) (int, error) {
	c.mu.Lock()
	if c.writeYield && !c.auto && !c.closed && !c.rst {
		// a slow network: the write blocks until the controller lets it through
		// (a quiescent point inside the driver's handshake / dump request / COM_QUIT)
		ch := make(chan struct{})
		c.writeParked = ch
		c.mu.Unlock()
		<-ch
		c.mu.Lock()
	}
	defer c.mu.Unlock()
	c.nWrites++
	if c.closed {
		return 0, errSimClosed
	}
	if c.rst {
		return 0, errSimReset
	}
	if c.failWriteAt > 0 && c.nWrites == c.failWriteAt {
		c.rst = true
		c.wakeLocked()
		return 0, errSimWrite
	}
	c.master.onClientBytes(p)
	if c.auto {
		c.flushAuto()
	}
	return len(p), nil
}

func (c *simConn) Close() error {
	c.mu.Lock()
	defer c.mu.Unlock()
	c.closeCalls++
	if c.closed {
		return errSimClosed
	}
	c.closed = true
	c.master.onClientClose()
	c.wakeLocked()
	return nil
}

func (c *simConn) LocalAddr() net.Addr  { return simAddr{} }
func (c *simConn) RemoteAddr() net.Addr { return simAddr{} }

func (c *simConn) SetDeadline(t time.Time) error {
	c.mu.Lock()
	defer c.mu.Unlock()
	c.rdl, c.wdl = t, t
	return nil
}

func (c *simConn) SetReadDeadline(t time.Time) error {
	c.mu.Lock()
	defer c.mu.Unlock()
	if c.closed {
		return errSimClosed
	}
	c.rdl = t
	return nil
}

func (c *simConn) SetWriteDeadline(t time.Time) error {
	c.mu.Lock()
	defer c.mu.Unlock()
	if c.closed {
		return errSimClosed
	}
	c.wdl = t
	return nil
}

// --- controller side (called only at quiescent points) ---

// deliver moves up to n bytes from the wire to the client.
func (c *simConn) deliver(n int) int {
	c.mu.Lock()
	defer c.mu.Unlock()
	if n > len(c.wire) {
		n = len(c.wire)
	}
	if n <= 0 || c.closed || c.rst {
		return 0
	}
	c.inbox = append(c.inbox, c.wire[:n]...)
	c.wire = c.wire[n:]
	c.delivered += n
	c.wakeLocked()
	return n
}

func (c *simConn) wireLen() int {
	c.mu.Lock()
	defer c.mu.Unlock()
	return len(c.wire)
}

func (c *simConn) inboxLen() int {
	c.mu.Lock()
	defer c.mu.Unlock()
	return len(c.inbox)
}

// fin: the master closes its side; undelivered wire bytes are still delivered
// by the controller before it calls fin (TCP ordering).
func (c *simConn) fin() {
	c.mu.Lock()
	defer c.mu.Unlock()
	c.finRx = true
	c.wakeLocked()
}

// reset: RST - pending and future reads fail, undelivered bytes are dropped.
func (c *simConn) reset() {
	c.mu.Lock()
	defer c.mu.Unlock()
	c.rst = true
	c.wire = nil
	c.inbox = nil
	c.wakeLocked()
}

func (c *simConn) isReading() bool {
	c.mu.Lock()
	defer c.mu.Unlock()
	return c.reading
}

func (c *simConn) isClosed() bool {
	c.mu.Lock()
	defer c.mu.Unlock()
	return c.closed
}

// releaseWrite lets a parked Write proceed; it reports whether one was parked.
func (c *simConn) releaseWrite() bool {
	c.mu.Lock()
	ch := c.writeParked
	c.writeParked = nil
	c.mu.Unlock()
	if ch != nil {
		close(ch)
		return true
	}
	return false
}

func (c *simConn) writeIsParked() bool {
	c.mu.Lock()
	defer c.mu.Unlock()
	return c.writeParked != nil
}
