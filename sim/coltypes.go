package verifsim

// Column types: an independent encoder for every supported column type and the
// expected rendering derived from the *logical* value (never from decoding).

import (
	"fmt"
	"math"
	"strconv"
	"strings"
)

type cmpKind int

const (
	cmpExact cmpKind = iota
	cmpFloat32
	cmpFloat64
)

// MySQL column type codes as they appear in a table map.
const (
	tTiny       = 1
	tShort      = 2
	tLong       = 3
	tFloat      = 4
	tDouble     = 5
	tTimestamp  = 7
	tLongLong   = 8
	tInt24      = 9
	tDate       = 10
	tTime       = 11
	tDateTime   = 12
	tYear       = 13
	tVarchar    = 15
	tBit        = 16
	tTimestamp2 = 17
	tDateTime2  = 18
	tTime2      = 19
	tJSON       = 245
	tNewDecimal = 246
	tEnum       = 247
	tSet        = 248
	tTinyBlob   = 249
	tMediumBlob = 250
	tLongBlob   = 251
	tBlob       = 252
	tVarString  = 253
	tString     = 254
	tGeometry   = 255
)

type colKind int

const (
	kTiny colKind = iota
	kShort
	kInt24
	kLong
	kLongLong
	kVarchar
	kChar
	kBlob
	kFloat
	kDouble
	kYear
	kBit
	kEnum
	kSet
	kDecimal
	kDate
	kTimeOld
	kDatetimeOld
	kTimestampOld
	kTimestamp2
	kDatetime2
	kTime2
	kGeometry
	kVarString
	kBlobAlt // TINY/MEDIUM/LONG_BLOB codes ("just in case" types)
	kJSON
	numKinds
)

var kindNames = map[colKind]string{
	kTiny: "tinyint", kShort: "smallint", kInt24: "mediumint", kLong: "int", kLongLong: "bigint",
	kVarchar: "varchar", kChar: "char", kBlob: "blob", kFloat: "float", kDouble: "double",
	kYear: "year", kBit: "bit", kEnum: "enum", kSet: "set", kDecimal: "decimal", kDate: "date",
	kTimeOld: "time(old)", kDatetimeOld: "datetime(old)", kTimestampOld: "timestamp(old)",
	kTimestamp2: "timestamp2", kDatetime2: "datetime2", kTime2: "time2", kGeometry: "geometry",
	kVarString: "var_string", kBlobAlt: "blob(alt code)", kJSON: "json",
}

// ColDef is one column of a generated table.
type ColDef struct {
	Name     string // field name the mapper reports for this ordinal
	Kind     colKind
	TypeCode byte   // type byte in the table map
	Meta     []byte // metadata bytes in the table map, in file order
	Nullable bool
	Unsigned bool // what the mapper reports through IsUnSignedInt
	P1, P2   int  // kind parameters (max length / precision,scale / fsp / bits / pack length)
}

func (c *ColDef) String() string {
	u := ""
	if c.Unsigned {
		u = " unsigned"
	}
	return fmt.Sprintf("%s %s(%d,%d)%s", c.Name, kindNames[c.Kind], c.P1, c.P2, u)
}

// Val is one cell: its bytes in the row image and the text the handler must see.
type Val struct {
	Null bool
	Enc  []byte
	Text []byte
	Cmp  cmpKind
	Bits uint64 // IEEE bits for float comparisons
}

// genProfile tunes value sizes.
type genProfile struct {
	MaxStr    int // typical upper bound of string/blob payloads
	BigChance int // 1/BigChance of a large payload (0 = never)
	BigMax    int // upper bound of a large payload
	ZeroTSPct int // percentage of zero timestamps among timestamp values
	Kinds     []colKind
	AllowJSON bool
	JumboLeft *int // remaining jumbo values to generate in this history
}

var defaultKinds = []colKind{
	kTiny, kShort, kInt24, kLong, kLongLong, kVarchar, kChar, kBlob, kFloat, kDouble, kYear, kBit,
	kEnum, kSet, kDecimal, kDate, kTimeOld, kDatetimeOld, kTimestampOld, kTimestamp2, kDatetime2,
	kTime2, kGeometry,
}

func genColDef(s *Stream, idx int, prof *genProfile) ColDef {
	kinds := prof.Kinds
	if len(kinds) == 0 {
		kinds = defaultKinds
	}
	var k colKind
	// rare "just in case" codes
	if s.Chance(1, 60) {
		if s.Chance(1, 2) {
			k = kVarString
		} else {
			k = kBlobAlt
		}
	} else {
		k = kinds[s.N(len(kinds))]
	}
	c := ColDef{Kind: k, Name: fmt.Sprintf("c%d_%s", idx, strings.NewReplacer("(", "", ")", "", " ", "").Replace(kindNames[k]))}
	c.Nullable = s.Chance(1, 2)
	switch k {
	case kTiny:
		c.TypeCode, c.Unsigned = tTiny, s.Chance(1, 2)
	case kShort:
		c.TypeCode, c.Unsigned = tShort, s.Chance(1, 2)
	case kInt24:
		c.TypeCode, c.Unsigned = tInt24, s.Chance(1, 2)
	case kLong:
		c.TypeCode, c.Unsigned = tLong, s.Chance(1, 2)
	case kLongLong:
		c.TypeCode, c.Unsigned = tLongLong, s.Chance(1, 2)
	case kFloat:
		c.TypeCode, c.Meta, c.Unsigned = tFloat, []byte{4}, s.Chance(1, 8)
	case kDouble:
		c.TypeCode, c.Meta, c.Unsigned = tDouble, []byte{8}, s.Chance(1, 8)
	case kYear:
		c.TypeCode = tYear
	case kBit:
		c.TypeCode = tBit
		c.P1 = 1 + s.N(64)
		c.Meta = []byte{byte(c.P1 % 8), byte(c.P1 / 8)}
	case kEnum:
		c.TypeCode = tString
		c.P1 = 1 + s.N(2)
		c.Meta = []byte{tEnum, byte(c.P1)}
	case kSet:
		c.TypeCode = tString
		c.P1 = 1 + s.N(8)
		c.Meta = []byte{tSet, byte(c.P1)}
	case kChar:
		c.TypeCode = tString
		switch s.Weighted(6, 2, 1, 1, 1, 1) {
		case 0:
			c.P1 = 1 + s.N(60)
		case 1:
			c.P1 = s.N(256)
		case 2:
			c.P1 = 255
		case 3:
			c.P1 = 256
		case 4:
			c.P1 = 256 + s.N(768)
		case 5:
			c.P1 = 1023
		}
		// Field_string::do_save_field_metadata
		c.Meta = []byte{byte(tString ^ ((c.P1 & 0x300) >> 4)), byte(c.P1 & 0xff)}
	case kVarchar, kVarString:
		c.TypeCode = tVarchar
		if k == kVarString {
			c.TypeCode = tVarString
		}
		switch s.Weighted(6, 1, 1, 2, 1) {
		case 0:
			c.P1 = 1 + s.N(200)
		case 1:
			c.P1 = 255
		case 2:
			c.P1 = 256
		case 3:
			c.P1 = 256 + s.N(65535-256)
		case 4:
			c.P1 = 65535
		}
		c.Meta = []byte{byte(c.P1), byte(c.P1 >> 8)}
	case kBlob:
		c.TypeCode = tBlob
		c.P1 = 1 + s.Weighted(2, 5, 2, 2)
		c.Meta = []byte{byte(c.P1)}
	case kBlobAlt:
		c.TypeCode = []byte{tTinyBlob, tMediumBlob, tLongBlob}[s.N(3)]
		c.P1 = 1 + s.N(4)
		c.Meta = []byte{byte(c.P1)}
	case kGeometry:
		c.TypeCode = tGeometry
		c.P1 = 4
		c.Meta = []byte{4}
	case kDecimal:
		c.TypeCode = tNewDecimal
		switch s.Weighted(4, 2, 1, 1) {
		case 0:
			c.P1 = 1 + s.N(20)
		case 1:
			c.P1 = 1 + s.N(65)
		case 2:
			c.P1 = 65
		case 3:
			c.P1 = []int{9, 10, 18, 19, 27, 28}[s.N(6)]
		}
		maxScale := c.P1
		if maxScale > 30 {
			maxScale = 30
		}
		switch s.Weighted(2, 4, 1) {
		case 0:
			c.P2 = 0
		case 1:
			c.P2 = s.N(maxScale + 1)
		case 2:
			c.P2 = maxScale
		}
		c.Meta = []byte{byte(c.P1), byte(c.P2)}
		c.Unsigned = s.Chance(1, 8)
	case kDate:
		c.TypeCode = tDate
	case kTimeOld:
		c.TypeCode = tTime
	case kDatetimeOld:
		c.TypeCode = tDateTime
	case kTimestampOld:
		c.TypeCode = tTimestamp
	case kTimestamp2:
		c.TypeCode = tTimestamp2
		c.P1 = s.N(7)
		c.Meta = []byte{byte(c.P1)}
	case kDatetime2:
		c.TypeCode = tDateTime2
		c.P1 = s.N(7)
		c.Meta = []byte{byte(c.P1)}
	case kTime2:
		c.TypeCode = tTime2
		c.P1 = s.N(7)
		c.Meta = []byte{byte(c.P1)}
	case kJSON:
		c.TypeCode = tJSON
		c.P1 = 4
		c.Meta = []byte{4}
	}
	return c
}

func payloadLen(s *Stream, max int, prof *genProfile) int {
	if max <= 0 {
		return 0
	}
	typical := prof.MaxStr
	if typical <= 0 {
		typical = 24
	}
	var n int
	switch s.Weighted(8, 2, 1, 1, 1) {
	case 0:
		n = s.N(typical + 1)
	case 1:
		n = 0
	case 2:
		n = 255
	case 3:
		n = 256
	case 4:
		n = max
		if n > 2048 && !(prof.BigChance > 0) {
			n = 2048
		}
	}
	if prof.BigChance > 0 && s.Chance(1, prof.BigChance) {
		n = s.N(prof.BigMax + 1)
	}
	if n > max {
		n = max
	}
	return n
}

func payload(s *Stream, n int) []byte {
	if n == 0 {
		return []byte{}
	}
	b := s.Bytes(n)
	// half of the payloads are printable to keep replay files readable
	if b[0]&1 == 0 {
		for i := range b {
			b[i] = 'a' + b[i]%26
		}
	}
	return b
}

func interestingU64(s *Stream, bits uint) uint64 {
	mask := uint64(1)<<bits - 1
	if bits == 64 {
		mask = ^uint64(0)
	}
	switch s.Weighted(4, 1, 1, 1, 1, 1, 1) {
	case 0:
		return s.U64() & mask
	case 1:
		return 0
	case 2:
		return 1
	case 3:
		return mask // -1 / max unsigned
	case 4:
		return uint64(1) << (bits - 1) // min signed
	case 5:
		return uint64(1)<<(bits-1) - 1 // max signed
	default:
		return (s.U64() & 0xff) & mask
	}
}

func intText(v uint64, bits uint, unsigned bool) []byte {
	if unsigned {
		return []byte(strconv.FormatUint(v, 10))
	}
	// two's complement
	if bits < 64 && v&(uint64(1)<<(bits-1)) != 0 {
		return []byte(strconv.FormatInt(int64(v)-int64(uint64(1)<<bits), 10))
	}
	return []byte(strconv.FormatInt(int64(v), 10))
}

// civilFromDays converts days since 1970-01-01 to a civil date.
func civilFromDays(z int64) (y int64, m, d int) {
	z += 719468
	era := z / 146097
	if z < 0 {
		era = (z - 146096) / 146097
	}
	doe := z - era*146097
	yoe := (doe - doe/1460 + doe/36524 - doe/146096) / 365
	y = yoe + era*400
	doy := doe - (365*yoe + yoe/4 - yoe/100)
	mp := (5*doy + 2) / 153
	d = int(doy - (153*mp+2)/5 + 1)
	if mp < 10 {
		m = int(mp + 3)
	} else {
		m = int(mp - 9)
	}
	if m <= 2 {
		y++
	}
	return
}

// simZoneOffset is the UTC offset (seconds) of the worker's local time zone.
var simZoneOffset int64

func timestampText(secs uint32) string {
	if secs == 0 {
		return "0000-00-00 00:00:00"
	}
	t := int64(secs) + simZoneOffset
	days := t / 86400
	rem := t % 86400
	if rem < 0 {
		rem += 86400
		days--
	}
	y, m, d := civilFromDays(days)
	return fmt.Sprintf("%04d-%02d-%02d %02d:%02d:%02d", y, m, d, rem/3600, rem%3600/60, rem%60)
}

// fracEnc returns the fractional-seconds bytes of the "2" temporal encodings
// for a non-negative microsecond value that is a multiple of 10^(6-fsp).
func fracEnc(usec int, fsp int) []byte {
	switch fsp {
	case 1, 2:
		return []byte{byte(usec / 10000)}
	case 3, 4:
		return beN(nil, uint64(usec/100), 2)
	case 5, 6:
		return beN(nil, uint64(usec), 3)
	}
	return nil
}

func fracText(usec int, fsp int) string {
	if fsp == 0 {
		return ""
	}
	return "." + fmt.Sprintf("%06d", usec)[:fsp]
}

func genUsec(s *Stream, fsp int) int {
	if fsp == 0 {
		return 0
	}
	pow := 1
	for i := 0; i < 6-fsp; i++ {
		pow *= 10
	}
	max := 1000000 / pow
	var v int
	switch s.Weighted(3, 1, 1, 1) {
	case 0:
		v = s.N(max)
	case 1:
		v = 0
	case 2:
		v = max - 1
	case 3:
		v = 1
	}
	return v * pow
}

func genDateParts(s *Stream) (y, m, d int) {
	switch s.Weighted(6, 1, 1, 1) {
	case 0:
		return 1000 + s.N(9000), 1 + s.N(12), 1 + s.N(28)
	case 1:
		return 0, 0, 0
	case 2:
		return s.N(10000), s.N(13), s.N(32) // partial zero / odd dates are storable
	default:
		return 9999, 12, 31
	}
}

// decimalEnc encodes digit strings (intDigits has p-s digits, fracDigits s
// digits) in MySQL's packed decimal format.
var dig2bytesTab = []int{0, 1, 1, 2, 2, 3, 3, 4, 4, 4}

func decimalEnc(intDigits, fracDigits string, neg bool) []byte {
	out := []byte{}
	put := func(digits string) {
		if len(digits) == 0 {
			return
		}
		v, _ := strconv.ParseUint(digits, 10, 64)
		out = beN(out, v, dig2bytesTab[len(digits)])
	}
	lead := len(intDigits) % 9
	put(intDigits[:lead])
	for i := lead; i < len(intDigits); i += 9 {
		out = beN(out, mustU(intDigits[i:i+9]), 4)
	}
	full := len(fracDigits) / 9
	for i := 0; i < full; i++ {
		out = beN(out, mustU(fracDigits[i*9:i*9+9]), 4)
	}
	put(fracDigits[full*9:])
	if neg {
		for i := range out {
			out[i] ^= 0xff
		}
	}
	out[0] ^= 0x80
	return out
}

func mustU(s string) uint64 {
	v, err := strconv.ParseUint(s, 10, 64)
	if err != nil {
		panic(err)
	}
	return v
}

func decimalText(intDigits, fracDigits string, neg bool) string {
	i := strings.TrimLeft(intDigits, "0")
	if i == "" {
		i = "0"
	}
	t := i
	if len(fracDigits) > 0 {
		t += "." + fracDigits
	}
	if neg {
		t = "-" + t
	}
	return t
}

func genDigits(s *Stream, n int) string {
	if n == 0 {
		return ""
	}
	b := make([]byte, n)
	switch s.Weighted(4, 2, 1, 1, 2) {
	case 0: // random
		r := s.Bytes(n)
		for i := range b {
			b[i] = '0' + r[i]%10
		}
	case 1: // all zeros
		for i := range b {
			b[i] = '0'
		}
	case 2: // all nines
		for i := range b {
			b[i] = '9'
		}
	case 3: // single low digit
		for i := range b {
			b[i] = '0'
		}
		b[n-1] = '1' + byte(s.N(9))
	case 4: // some 9-digit groups zero, others not (counted from the right)
		r := s.Bytes(n)
		mask := s.N(256)
		for i := range b {
			g := (n - 1 - i) / 9
			if mask&(1<<uint(g%8)) != 0 {
				b[i] = '0'
			} else {
				b[i] = '0' + r[i]%10
			}
		}
	}
	return string(b)
}

// genVal draws a non-NULL value for the column.
func genVal(s *Stream, c *ColDef, prof *genProfile) Val {
	switch c.Kind {
	case kTiny:
		v := interestingU64(s, 8)
		return Val{Enc: leN(nil, v, 1), Text: intText(v, 8, c.Unsigned)}
	case kShort:
		v := interestingU64(s, 16)
		return Val{Enc: leN(nil, v, 2), Text: intText(v, 16, c.Unsigned)}
	case kInt24:
		v := interestingU64(s, 24)
		return Val{Enc: leN(nil, v, 3), Text: intText(v, 24, c.Unsigned)}
	case kLong:
		v := interestingU64(s, 32)
		return Val{Enc: leN(nil, v, 4), Text: intText(v, 32, c.Unsigned)}
	case kLongLong:
		v := interestingU64(s, 64)
		return Val{Enc: leN(nil, v, 8), Text: intText(v, 64, c.Unsigned)}
	case kFloat:
		var bits uint32
		switch s.Weighted(4, 1, 1, 1, 1, 1) {
		case 0:
			bits = uint32(s.U64())
		case 1:
			bits = 0
		case 2:
			bits = 0x80000000
		case 3:
			bits = uint32(s.N(1 << 23)) // subnormal
		case 4:
			bits = 0x7f7fffff // max
		case 5:
			bits = math.Float32bits(float32(s.N(2000)-1000) / 8)
		}
		if f := float64(math.Float32frombits(bits)); math.IsNaN(f) || math.IsInf(f, 0) {
			bits = 0
		}
		return Val{Enc: leN(nil, uint64(bits), 4), Cmp: cmpFloat32, Bits: uint64(bits)}
	case kDouble:
		var bits uint64
		switch s.Weighted(4, 1, 1, 1, 1, 1) {
		case 0:
			bits = s.U64()
		case 1:
			bits = 0
		case 2:
			bits = 1 << 63
		case 3:
			bits = s.U64() & (1<<52 - 1) // subnormal
		case 4:
			bits = 0x7fefffffffffffff // max
		case 5:
			bits = math.Float64bits(float64(s.N(2000)-1000) / 8)
		}
		f := math.Float64frombits(bits)
		if math.IsNaN(f) || math.IsInf(f, 0) {
			bits = 0
		}
		return Val{Enc: leN(nil, bits, 8), Cmp: cmpFloat64, Bits: bits}
	case kYear:
		var v int
		if s.Chance(1, 4) {
			v = 0
		} else {
			v = s.N(256)
		}
		if v == 0 {
			return Val{Enc: []byte{0}, Text: []byte("0000")}
		}
		return Val{Enc: []byte{byte(v)}, Text: []byte(strconv.Itoa(1900 + v))}
	case kBit:
		n := (c.P1 + 7) / 8
		v := s.U64()
		if c.P1 < 64 {
			v &= uint64(1)<<uint(c.P1) - 1
		}
		enc := beN(nil, v, n)
		return Val{Enc: enc, Text: append([]byte{}, enc...)}
	case kEnum:
		v := s.U64() & (uint64(1)<<(8*uint(c.P1)) - 1)
		if s.Chance(1, 4) {
			v = uint64(s.N(4))
		}
		return Val{Enc: leN(nil, v, c.P1), Text: []byte(strconv.FormatUint(v, 10))}
	case kSet:
		v := s.U64()
		if c.P1 < 8 {
			v &= uint64(1)<<(8*uint(c.P1)) - 1
		}
		if s.Chance(1, 4) {
			v = uint64(s.N(4))
		}
		return Val{Enc: leN(nil, v, c.P1), Text: []byte(strconv.FormatUint(v, 10))}
	case kChar:
		n := payloadLen(s, c.P1, prof)
		p := payload(s, n)
		var enc []byte
		if c.P1 > 255 {
			enc = leN(nil, uint64(n), 2)
		} else {
			enc = []byte{byte(n)}
		}
		return Val{Enc: append(enc, p...), Text: p}
	case kVarchar, kVarString:
		n := payloadLen(s, c.P1, prof)
		p := payload(s, n)
		var enc []byte
		if c.P1 > 255 {
			enc = leN(nil, uint64(n), 2)
		} else {
			enc = []byte{byte(n)}
		}
		return Val{Enc: append(enc, p...), Text: p}
	case kBlob, kBlobAlt, kGeometry:
		max := 1<<(8*uint(c.P1)) - 1
		if c.P1 >= 3 {
			max = 1 << 20
		}
		n := payloadLen(s, max, prof)
		if prof.JumboLeft != nil && *prof.JumboLeft > 0 && c.P1 >= 4 {
			// an event of 2^24-1 bytes or more is split over several MySQL packets
			*prof.JumboLeft--
			n = 1<<24 - 200 + s.N(400)
			if s.Chance(1, 3) {
				n = 2<<24 + s.N(1000)
			}
		}
		p := payload(s, n)
		enc := leN(nil, uint64(n), c.P1)
		return Val{Enc: append(enc, p...), Text: p}
	case kDecimal:
		id := genDigits(s, c.P1-c.P2)
		fd := genDigits(s, c.P2)
		neg := false
		if strings.Trim(id+fd, "0") != "" {
			neg = s.Chance(1, 2)
		}
		return Val{Enc: decimalEnc(id, fd, neg), Text: []byte(decimalText(id, fd, neg))}
	case kDate:
		y, m, d := genDateParts(s)
		v := uint64(y*512 + m*32 + d)
		return Val{Enc: leN(nil, v, 3), Text: []byte(fmt.Sprintf("%04d-%02d-%02d", y, m, d))}
	case kTimeOld:
		h, mi, se := genTimeParts(s)
		neg := (h|mi|se) != 0 && s.Chance(1, 3)
		n := int64(h*10000 + mi*100 + se)
		sign := ""
		if neg {
			n = -n
			sign = "-"
		}
		return Val{Enc: leN(nil, uint64(n)&0xffffff, 3),
			Text: []byte(fmt.Sprintf("%s%02d:%02d:%02d", sign, h, mi, se))}
	case kDatetimeOld:
		y, m, d := genDateParts(s)
		h, mi, se := s.N(24), s.N(60), s.N(60)
		if y == 0 && m == 0 && d == 0 {
			h, mi, se = 0, 0, 0
		}
		v := uint64(y)*10000000000 + uint64(m)*100000000 + uint64(d)*1000000 + uint64(h*10000+mi*100+se)
		return Val{Enc: leN(nil, v, 8),
			Text: []byte(fmt.Sprintf("%04d-%02d-%02d %02d:%02d:%02d", y, m, d, h, mi, se))}
	case kTimestampOld:
		secs := genEpoch(s, prof)
		return Val{Enc: leN(nil, uint64(secs), 4), Text: []byte(timestampText(secs))}
	case kTimestamp2:
		secs := genEpoch(s, prof)
		usec := 0
		if secs != 0 {
			usec = genUsec(s, c.P1)
		}
		enc := beN(nil, uint64(secs), 4)
		enc = append(enc, fracEnc(usec, c.P1)...)
		return Val{Enc: enc, Text: []byte(timestampText(secs) + fracText(usec, c.P1))}
	case kDatetime2:
		y, m, d := genDateParts(s)
		h, mi, se := s.N(24), s.N(60), s.N(60)
		usec := genUsec(s, c.P1)
		if y == 0 && m == 0 && d == 0 {
			h, mi, se, usec = 0, 0, 0, 0
		}
		ym := uint64(y*13 + m)
		v := ym<<22 | uint64(d)<<17 | uint64(h)<<12 | uint64(mi)<<6 | uint64(se)
		enc := beN(nil, v+0x8000000000, 5)
		enc = append(enc, fracEnc(usec, c.P1)...)
		return Val{Enc: enc, Text: []byte(fmt.Sprintf("%04d-%02d-%02d %02d:%02d:%02d%s",
			y, m, d, h, mi, se, fracText(usec, c.P1)))}
	case kTime2:
		h, mi, se := genTimeParts(s)
		usec := genUsec(s, c.P1)
		neg := (h|mi|se|usec) != 0 && s.Chance(1, 3)
		// MySQL packed time: ((h<<12|m<<6|s)<<24)+usec, negated as a whole.
		nr := (int64(h)<<12|int64(mi)<<6|int64(se))<<24 + int64(usec)
		sign := ""
		if neg {
			nr = -nr
			sign = "-"
		}
		var enc []byte
		intPart := nr >> 24 // floor
		fracPart := nr % (1 << 24)
		switch c.P1 {
		case 0:
			enc = beN(nil, uint64(0x800000+intPart)&0xffffff, 3)
		case 1, 2:
			enc = beN(nil, uint64(0x800000+intPart)&0xffffff, 3)
			enc = append(enc, byte(int8(fracPart/10000)))
		case 3, 4:
			enc = beN(nil, uint64(0x800000+intPart)&0xffffff, 3)
			enc = beN(enc, uint64(uint16(int16(fracPart/100))), 2)
		case 5, 6:
			enc = beN(nil, uint64(nr+0x800000000000)&0xffffffffffff, 6)
		}
		return Val{Enc: enc, Text: []byte(fmt.Sprintf("%s%02d:%02d:%02d%s", sign, h, mi, se, fracText(usec, c.P1)))}
	case kJSON:
		if s.Chance(1, 6) {
			// a NOT NULL JSON column that got no value: length prefix 0, rendered as the JSON null document
			return Val{Enc: leN(nil, 0, 4), Text: []byte("'null'")}
		}
		doc := genJSONDoc(s, 0)
		if s.Chance(1, 40) {
			doc = genDeepJSON(s)
		}
		bin := jsonBinary(doc)
		enc := leN(nil, uint64(len(bin)), 4)
		return Val{Enc: append(enc, bin...), Text: []byte(jsonExpected(doc, true))}
	}
	panic("genVal: unknown kind")
}

func genTimeParts(s *Stream) (h, m, sec int) {
	switch s.Weighted(5, 1, 1, 1, 1) {
	case 0:
		return s.N(24), s.N(60), s.N(60)
	case 1:
		return 0, 0, 0
	case 2:
		return 838, 59, 59
	case 3:
		return s.N(839), s.N(60), s.N(60)
	default:
		return 0, s.N(60), s.N(60)
	}
}

func genEpoch(s *Stream, prof *genProfile) uint32 {
	z := prof.ZeroTSPct
	if z <= 0 {
		z = 15
	}
	if s.N(100) < z {
		return 0
	}
	switch s.Weighted(5, 1, 1, 1) {
	case 0:
		return 1 + uint32(s.N(1<<31-1))
	case 1:
		return 1
	case 2:
		return 1<<31 - 1
	default:
		return 86400*365 + uint32(s.N(86400*2))
	}
}

// valueMatches compares what the handler saw with the expectation.
func valueMatches(exp *Val, got []byte) bool {
	switch exp.Cmp {
	case cmpExact:
		return string(exp.Text) == string(got)
	case cmpFloat32:
		txt := string(got)
		if strings.ContainsAny(txt, "eE") || txt == "" {
			return false
		}
		f, err := strconv.ParseFloat(txt, 32)
		if err != nil {
			return false
		}
		return math.Float32bits(float32(f)) == uint32(exp.Bits)
	case cmpFloat64:
		txt := string(got)
		if strings.ContainsAny(txt, "eE") || txt == "" {
			return false
		}
		f, err := strconv.ParseFloat(txt, 64)
		if err != nil {
			return false
		}
		return math.Float64bits(f) == exp.Bits
	}
	return false
}
