package verifsim

// Process layout: `check` builds this test binary and runs it in driver mode;
// the driver starts one worker process per core (same binary), merges their
// results, writes the evidence file and prints VIOLATION / KNOWN-FINDING lines.

import (
	"bytes"
	"encoding/binary"
	"encoding/json"
	"fmt"
	"os"
	"os/exec"
	"path/filepath"
	"runtime"
	"sort"
	"strconv"
	"strings"
	"sync"
	"sync/atomic"
	"testing"
	"time"
)

func envInt(name string, def int) int {
	if v := os.Getenv(name); v != "" {
		if n, err := strconv.Atoi(v); err == nil {
			return n
		}
	}
	return def
}

func envU64(name string, def uint64) uint64 {
	if v := os.Getenv(name); v != "" {
		if n, err := strconv.ParseUint(v, 10, 64); err == nil {
			return n
		}
		if n, err := strconv.ParseInt(v, 10, 64); err == nil {
			return uint64(n)
		}
	}
	return def
}

func TestMain(m *testing.M) {
	switch os.Getenv("VSIM_MODE") {
	case "driver":
		os.Exit(driverMain())
	case "replay":
		os.Exit(m.Run())
	default:
		os.Exit(m.Run())
	}
}

// zones the worker processes rotate through (seconds east of UTC).
var simZones = []int{0, 8 * 3600, -5 * 3600, 5*3600 + 1800, -9*3600 - 1800, 13 * 3600, -11 * 3600}

func setZone(idx int) {
	off := simZones[idx%len(simZones)]
	simZoneOffset = int64(off)
	time.Local = time.FixedZone("SIM", off)
}

// ---------------------------------------------------------------------------
// enumeration plans (fault_enumeration tiers)

type enumCase struct {
	HistSeed uint64
	Enum     EnumSpec
}

func enumKinds(prop string) []stopKind {
	switch prop {
	case "C17":
		return []stopKind{stopInvalidEvent}
	case "C05", "C06":
		return append(append([]stopKind{}, faultKinds...), stopTimeout, stopDialErr, stopHandshakeFIN, stopHandshakeGarbage,
			stopAuthErr, stopSetErr, stopDumpWriteErr, stopCancelInHandshake, stopCancelAtDial)
	}
	return faultKinds
}

func enumPlan(prop, tier string, seed uint64) []enumCase {
	switch prop {
	case "C04", "C05", "C06", "C17":
	default:
		return nil
	}
	nh := 3
	if tier == "thorough" {
		nh = 40
	}
	var out []enumCase
	for hi := 0; hi < nh; hi++ {
		hs := mix64(seed, uint64(7000+hi))
		spec := CaseSpec{Prop: prop, Tier: tier, Seed: hs, Enum: &EnumSpec{Kind: int(stopCancel)}}
		t := NewTape(hs)
		sc := buildScenario(&spec, t)
		npk := packetCount(sc.Hist, sc.Start)
		exp, _ := sc.Hist.Model(sc.Start)
		for _, k := range enumKinds(prop) {
			hi := npk
			switch k {
			case stopHandlerErr:
				hi = len(exp) - 1
			case stopMapperErr, stopMapperMiscount:
				hi = len(sc.Hist.Tables) - 1
			}
			if k.connPhase() {
				hi = 0
			}
			if hi < 0 {
				hi = 0
			}
			whens := []int{0, 1}
			if k == stopCancel {
				whens = []int{0, 1, 2, 3, 4}
			}
			if prop == "C17" {
				whens = []int{0, 1, 2, 3} // four malformed payloads per index (payload drawn from the fault stream)
			}
			stalls := []int{0}
			switch k {
			case stopCancel, stopHandlerErr, stopMapperErr, stopMapperMiscount:
				stalls = []int{0, 1}
			}
			for at := 0; at <= hi; at++ {
				for pacing := 0; pacing <= 1; pacing++ {
					for _, w := range whens {
						for _, st := range stalls {
							out = append(out, enumCase{hs, EnumSpec{Kind: int(k), At: at, Pacing: pacing, When: w, Stall: st}})
						}
					}
				}
			}
		}
	}
	if prop == "C06" {
		// error-number sweep: an ERR packet with every (thorough) / every documented
		// server and client (quick) error number, as the first packet of the dump
		// and after the first transaction
		hs := mix64(seed, 7000)
		lo, hi := 1000, 2100
		if tier == "thorough" {
			lo, hi = 1, 65535
		}
		for c := lo; c <= hi; c++ {
			out = append(out, enumCase{hs, EnumSpec{Kind: int(stopERR), At: 2, Pacing: c % 2, Code: c}})
		}
		for _, c := range []int{3000, 3024, 3100, 3159, 3200, 4000, 4031, 4100} {
			out = append(out, enumCase{hs, EnumSpec{Kind: int(stopERR), At: 2, Code: c}})
		}
	}
	return out
}

// forcedPlan: C02 exhaustive short unit sequences (thorough: length <= 3).
func forcedPlan(prop, tier string) [][]int {
	if prop != "C02" {
		return nil
	}
	maxLen := 2
	if tier == "thorough" {
		maxLen = 3
	}
	kinds := int(numUnitKinds)
	var out [][]int
	var rec func(cur []int)
	rec = func(cur []int) {
		if len(cur) > 0 {
			out = append(out, append([]int(nil), cur...))
		}
		if len(cur) == maxLen {
			return
		}
		for k := 0; k < kinds; k++ {
			rec(append(cur, k))
		}
	}
	rec(nil)
	return out
}

// ---------------------------------------------------------------------------
// worker

type ViolationOut struct {
	Property string `json:"property"`
	Rule     string `json:"rule"`
	Detail   string `json:"detail"`
	Replay   string `json:"replay"`
	Seed     uint64 `json:"seed"`
}

type WorkerOut struct {
	Worker     int               `json:"worker"`
	Cases      int               `json:"cases"`
	EnumCases  int               `json:"enum_cases"`
	EnumTotal  int               `json:"enum_total"`
	Stats      CaseStats         `json:"stats"`
	Nontrivial int               `json:"nontrivial_cases"`
	Violations []ViolationOut    `json:"violations"`
	ClassCount map[string]int    `json:"class_count"`
	Harness    []string          `json:"harness"`
	Samples    []interface{}     `json:"samples"`
	WallS      float64           `json:"wall_s"`
	MaxHeapMB  int               `json:"max_heap_mb"`
	TraceHash  map[string]string `json:"trace_hashes,omitempty"`
}

func mergeStats(dst *CaseStats, src *CaseStats) {
	dst.Runs += src.Runs
	dst.Steps += src.Steps
	dst.SimTime += src.SimTime
	dst.Attempts += src.Attempts
	dst.Deliveries += src.Deliveries
	if dst.Faults == nil {
		dst.Faults = map[string]int{}
	}
	if dst.Probes == nil {
		dst.Probes = map[string]int{}
	}
	for k, v := range src.Faults {
		dst.Faults[k] += v
	}
	for k, v := range src.Probes {
		dst.Probes[k] += v
	}
}

func TestWorker(t *testing.T) {
	if os.Getenv("VSIM_MODE") != "worker" {
		t.Skip("worker mode only")
	}
	prop := os.Getenv("VSIM_PROP")
	tier := os.Getenv("VSIM_TIER")
	seed := envU64("VERIF_SEED", 1)
	w := envInt("VSIM_WORKER", 0)
	nw := envInt("VSIM_WORKERS", 1)
	budget := time.Duration(envInt("VSIM_BUDGET_MS", 5000)) * time.Millisecond
	maxCases := envInt("VSIM_MAXCASES", 0)
	outDir := os.Getenv("VSIM_OUTDIR")
	replayDir := os.Getenv("VSIM_REPLAYDIR")
	hashOnly := os.Getenv("VSIM_HASHES") == "1"
	setZone(envInt("VSIM_ZONE", w))

	start := time.Now()
	out := &WorkerOut{Worker: w, ClassCount: map[string]int{}}
	if hashOnly {
		out.TraceHash = map[string]string{}
	}
	cur, _ := os.OpenFile(filepath.Join(outDir, fmt.Sprintf("worker-%d.cur", w)), os.O_CREATE|os.O_RDWR|os.O_TRUNC, 0o644)
	vf, _ := os.OpenFile(filepath.Join(outDir, fmt.Sprintf("worker-%d.viol.jsonl", w)), os.O_CREATE|os.O_WRONLY|os.O_TRUNC, 0o644)
	hashes := &bytes.Buffer{}
	writeCur := func(spec *CaseSpec) {
		if cur == nil {
			return
		}
		b, _ := json.Marshal(spec)
		b = append(b, bytes.Repeat([]byte{' '}, 8)...)
		cur.WriteAt(append(b, '\n'), 0)
	}
	var beat atomic.Int64
	go func() {
		last, lastAt := int64(-1), time.Now()
		for {
			time.Sleep(2 * time.Second)
			b := beat.Load()
			if b != last {
				last, lastAt = b, time.Now()
				continue
			}
			if time.Since(lastAt) > time.Duration(envInt("VSIM_CASE_TIMEOUT_S", 180))*time.Second {
				// two dumps a few seconds apart: only a goroutine that is executing
				// library code in both is a library hang
				buf := make([]byte, 4<<20)
				n := runtime.Stack(buf, true)
				fmt.Fprintf(os.Stderr, "WATCHDOG: one case has been running for more than %v\n%s\n", time.Since(lastAt), buf[:n])
				time.Sleep(5 * time.Second)
				if beat.Load() != b {
					last, lastAt = beat.Load(), time.Now()
					fmt.Fprintf(os.Stderr, "WATCHDOG-CLEARED: the case finished after all\n")
					continue
				}
				n = runtime.Stack(buf, true)
				fmt.Fprintf(os.Stderr, "WATCHDOG-SECOND-DUMP\n%s\n", buf[:n])
				os.Exit(3)
			}
		}
	}()
	minimiseTick = func() { beat.Add(1) }
	zone := envInt("VSIM_ZONE", w)
	maxHeap := uint64(0)
	runOne := func(spec CaseSpec) {
		spec.Zone = zone
		beat.Add(1)
		if out.Cases%200 == 0 {
			var ms runtime.MemStats
			runtime.ReadMemStats(&ms)
			if ms.HeapAlloc > maxHeap {
				maxHeap = ms.HeapAlloc
				out.MaxHeapMB = int(maxHeap >> 20)
			}
		}
		writeCur(&spec)
		res := RunCase(t, spec)
		out.Cases++
		mergeStats(&out.Stats, &res.Stats)
		if res.Harness != "" {
			if len(out.Harness) < 5 {
				out.Harness = append(out.Harness, fmt.Sprintf("seed %d: %s", spec.Seed, res.Harness))
			}
			return
		}
		if hashOnly {
			out.TraceHash[fmt.Sprintf("%d/%v", spec.Seed, spec.Enum)] = traceHash(res)
			if envU64("VSIM_SIGDUMP", 0) == spec.Seed {
				for _, r := range res.Runs {
					fmt.Fprintln(os.Stderr, "SIG", scheduleSignature(r))
					for _, l := range r.Trace {
						fmt.Fprintln(os.Stderr, "SIG", l)
					}
				}
				for _, l := range observedLines(res) {
					fmt.Fprintln(os.Stderr, "SIG", l)
				}
			}
		}
		if res.Nontrivial {
			out.Nontrivial++
			var b [8]byte
			binary.LittleEndian.PutUint64(b[:], res.Hash)
			hashes.Write(b[:])
		}
		if len(out.Samples) < 2 && res.Nontrivial && len(res.Scenario.Hist.Units) <= 12 {
			obs := observedLines(res)
			for i := range obs {
				if len(obs[i]) > 1500 {
					obs[i] = obs[i][:1500] + "..."
				}
			}
			out.Samples = append(out.Samples, map[string]interface{}{"case": spec, "scenario": describeScenario(res.Scenario), "observed": obs})
		}
		if len(res.Violations) > 0 {
			seen := map[string]bool{}
			for _, v := range res.Violations {
				cls := v.Property + "/" + v.Rule
				if seen[cls] {
					continue
				}
				seen[cls] = true
				out.ClassCount[cls]++
				if out.ClassCount[cls] > 2 {
					continue
				}
				rec := res.Tape.Record()
				origLen := tapeLen(rec)
				mspec, mres := minimise(t, spec, rec, v.Property, v.Rule, 15*time.Second, 400)
				final := v
				finalRes := res
				minimised := false
				if mres != nil {
					if mv := sameClass(mres.Violations, v.Property, v.Rule); mv != nil {
						final, finalRes, minimised = *mv, mres, true
					}
				} else {
					mspec = spec
					mspec.Streams = rec
				}
				path, err := writeReplay(replayDir, final, mspec, finalRes, minimised, origLen)
				if err != nil {
					out.Harness = append(out.Harness, "cannot write replay: "+err.Error())
				}
				vo := ViolationOut{final.Property, final.Rule, final.Detail, path, spec.Seed}
				out.Violations = append(out.Violations, vo)
				if vf != nil {
					// survive a later crash of this worker
					b, _ := json.Marshal(vo)
					vf.Write(append(b, '\n'))
				}
			}
		}
	}

	// phase 1: enumerated cases
	plan := enumPlan(prop, tier, seed)
	if os.Getenv("VSIM_NOENUM") == "1" {
		plan = nil
	}
	out.EnumTotal = len(plan)
	for i, ec := range plan {
		if i%nw != w {
			continue
		}
		e := ec.Enum
		runOne(CaseSpec{Prop: prop, Tier: tier, Seed: ec.HistSeed, Enum: &e})
		out.EnumCases++
	}
	fplan := forcedPlan(prop, tier)
	if os.Getenv("VSIM_NOENUM") == "1" {
		fplan = nil
	}
	out.EnumTotal += len(fplan)
	for i, f := range fplan {
		if i%nw != w {
			continue
		}
		runOne(CaseSpec{Prop: prop, Tier: tier, Seed: mix64(seed, uint64(900000+i)), Forced: f})
		out.EnumCases++
	}
	// phase 2: seeded random search until the budget is used
	deadline := start.Add(budget)
	for k := 0; ; k++ {
		if maxCases > 0 && k >= maxCases {
			break
		}
		if maxCases == 0 && time.Now().After(deadline) {
			break
		}
		s := mix64(seed, uint64(1000000+w+k*nw))
		runOne(CaseSpec{Prop: prop, Tier: tier, Seed: s})
	}
	out.WallS = time.Since(start).Seconds()
	b, _ := json.Marshal(out)
	os.WriteFile(filepath.Join(outDir, fmt.Sprintf("worker-%d.json", w)), b, 0o644)
	os.WriteFile(filepath.Join(outDir, fmt.Sprintf("worker-%d.hashes", w)), hashes.Bytes(), 0o644)
}

// ---------------------------------------------------------------------------
// replay

func TestReplay(t *testing.T) {
	if os.Getenv("VSIM_MODE") != "replay" {
		t.Skip("replay mode only")
	}
	path := os.Getenv("VSIM_REPLAY")
	b, err := os.ReadFile(path)
	if err != nil {
		fmt.Println("cannot read replay file:", err)
		os.Exit(2)
	}
	var rf ReplayFile
	if err := json.Unmarshal(b, &rf); err != nil {
		fmt.Println("cannot parse replay file:", err)
		os.Exit(2)
	}
	if rf.ProcessDied && os.Getenv("VSIM_REPLAY_CHILD") != "1" {
		cmd := limitedCommand(os.Args[0], "-test.run", "^TestReplay$", "-test.count", "1", "-test.timeout", "5m")
		cmd.Env = append(os.Environ(), "VSIM_REPLAY_CHILD=1", "VSIM_CASE_TIMEOUT_S=60")
		var stderr bytes.Buffer
		cmd.Stderr, cmd.Stdout = &stderr, &stderr
		cmd.Run()
		cur, _ := json.Marshal(rf.Spec)
		if v, ok := classifyCrash(rf.Property, cur, stderr.String(), filepath.Join(os.TempDir(), "vsim-replay-scratch")); ok && v.Rule == rf.Rule {
			os.RemoveAll(filepath.Join(os.TempDir(), "vsim-replay-scratch"))
			fmt.Printf("REPRODUCED %s/%s: %s\n", v.Property, v.Rule, v.Detail)
			fmt.Printf("VIOLATION property=%s replay=%s\n", rf.Property, path)
			os.Exit(1)
		}
		os.RemoveAll(filepath.Join(os.TempDir(), "vsim-replay-scratch"))
		fmt.Printf("NOT REPRODUCED: the case did not kill the process this time\n%s\n", tailStr(stderr.String(), 1500))
		os.Exit(0)
	}
	if rf.ProcessDied {
		// child: run with a watchdog so that a non-terminating case is reported
		go func() {
			time.Sleep(time.Duration(envInt("VSIM_CASE_TIMEOUT_S", 60)) * time.Second)
			buf := make([]byte, 4<<20)
			n := runtime.Stack(buf, true)
			fmt.Fprintf(os.Stderr, "WATCHDOG: one case has been running for more than 60s\n%s\n", buf[:n])
			time.Sleep(5 * time.Second)
			n = runtime.Stack(buf, true)
			fmt.Fprintf(os.Stderr, "WATCHDOG-SECOND-DUMP\n%s\n", buf[:n])
			os.Exit(3)
		}()
	}
	res := RunCase(t, rf.Spec)
	if res.Harness != "" {
		fmt.Println("harness trouble:", res.Harness)
		os.Exit(2)
	}
	for _, l := range observedLines(res) {
		fmt.Println("  ", l)
	}
	if v := sameClass(res.Violations, rf.Property, rf.Rule); v != nil {
		h := traceHash(res)
		fmt.Printf("REPRODUCED %s/%s: %s\n", v.Property, v.Rule, v.Detail)
		fmt.Printf("trace_hash=%s recorded=%s identical=%v\n", h, rf.TraceHash, h == rf.TraceHash)
		fmt.Printf("VIOLATION property=%s replay=%s\n", rf.Property, path)
		os.Exit(1)
	}
	fmt.Printf("NOT REPRODUCED: %s/%s did not fire (violations now: %v)\n", rf.Property, rf.Rule, res.Violations)
	os.Exit(0)
}

func zoneOfSeed(spec CaseSpec) int { return 0 }

func tailStr(s string, n int) string {
	if len(s) > n {
		return s[len(s)-n:]
	}
	return s
}

// ---------------------------------------------------------------------------
// driver

type KnownFinding struct {
	Property string   `json:"property"`
	Rule     string   `json:"rule"`
	Match    string   `json:"match"`
	MatchAll []string `json:"match_all,omitempty"`
	Exclude  []string `json:"exclude,omitempty"`
	What     string   `json:"what"`
	Status   string   `json:"status"`
	Commit   string   `json:"commit,omitempty"`
}

type KnownFile struct {
	Findings []KnownFinding `json:"findings"`
}

func loadKnown(path string) []KnownFinding {
	b, err := os.ReadFile(path)
	if err != nil {
		return nil
	}
	var kf KnownFile
	if json.Unmarshal(b, &kf) != nil {
		return nil
	}
	return kf.Findings
}

func matchKnown(known []KnownFinding, v ViolationOut) *KnownFinding {
	for i := range known {
		k := &known[i]
		if k.Status != "known" {
			continue
		}
		if k.Property != v.Property || k.Rule != v.Rule || !strings.Contains(v.Detail, k.Match) {
			continue
		}
		ok := true
		for _, m := range k.MatchAll {
			ok = ok && strings.Contains(v.Detail, m)
		}
		for _, m := range k.Exclude {
			ok = ok && !strings.Contains(v.Detail, m)
		}
		if ok {
			return k
		}
	}
	return nil
}

func tierBudget(prop, tier string) time.Duration {
	if ms := envInt("VSIM_BUDGET_MS", 0); ms > 0 {
		return time.Duration(ms) * time.Millisecond
	}
	if tier == "thorough" {
		return 10 * time.Minute
	}
	return 20 * time.Second
}

// limitedCommand runs a worker under an address-space limit: a library bug
// that allocates without bound must kill that worker (and be reported), not
// the machine.
func limitedCommand(bin string, args ...string) *exec.Cmd {
	kb := envInt("VSIM_WORKER_VMEM_KB", 3500000)
	script := fmt.Sprintf("ulimit -v %d; exec \"$0\" \"$@\"", kb)
	return exec.Command("/bin/bash", append([]string{"-c", script, bin}, args...)...)
}

// selfTest runs the same cases in fresh processes under different GOMAXPROCS
// (and once more at the same setting) and demands identical trace hashes.
func selfTest(verifDir, prop, tier string, seed uint64, n int, procs []int) (bool, string) {
	var maps []map[string]string
	var mu sync.Mutex
	var wg sync.WaitGroup
	fail := ""
	for i, gmp := range procs {
		wg.Add(1)
		go func(i, gmp int) {
			defer wg.Done()
			dir, err := os.MkdirTemp(filepath.Join(verifDir, ".cache"), "self-")
			if err != nil {
				mu.Lock()
				fail = err.Error()
				mu.Unlock()
				return
			}
			defer os.RemoveAll(dir)
			cmd := limitedCommand(os.Args[0], "-test.run", "^TestWorker$", "-test.count", "1", "-test.timeout", "0")
			cmd.Env = append(os.Environ(), "VSIM_MODE=worker", "VSIM_WORKER=0", "VSIM_WORKERS=1", "VSIM_OUTDIR="+dir,
				"VSIM_REPLAYDIR="+filepath.Join(dir, "replays"), "VSIM_HASHES=1", fmt.Sprintf("VSIM_MAXCASES=%d", n),
				"VSIM_TIER="+tier, "VSIM_PROP="+prop, fmt.Sprintf("GOMAXPROCS=%d", gmp), fmt.Sprintf("VERIF_SEED=%d", seed),
				"VSIM_ZONE=3", "VSIM_NOENUM=1")
			var stderr bytes.Buffer
			cmd.Stderr, cmd.Stdout = &stderr, &stderr
			cmd.Run()
			b, e := os.ReadFile(filepath.Join(dir, "worker-0.json"))
			mu.Lock()
			defer mu.Unlock()
			if e != nil {
				fail = fmt.Sprintf("self-test worker (GOMAXPROCS %d) produced no output: %s", gmp, stderr.String())
				return
			}
			var o WorkerOut
			json.Unmarshal(b, &o)
			maps = append(maps, o.TraceHash)
		}(i, gmp)
	}
	wg.Wait()
	if fail != "" {
		return false, fail
	}
	for i := 1; i < len(maps); i++ {
		if len(maps[i]) != len(maps[0]) {
			return false, fmt.Sprintf("self-test: %d vs %d cases", len(maps[i]), len(maps[0]))
		}
		for k, v := range maps[0] {
			if maps[i][k] != v {
				return false, fmt.Sprintf("self-test: case %s has trace hash %s in one process and %s in another", k, v, maps[i][k])
			}
		}
	}
	return true, fmt.Sprintf("%d cases x %d processes (GOMAXPROCS %v): identical trace hashes", len(maps[0]), len(maps), procs)
}

var selfTestNote string

// raceReplay re-runs the free-running race mode and reports whether the
// recorded signature shows up again (race mode cannot be replayed exactly).
func raceReplay(path string) int {
	b, err := os.ReadFile(path)
	if err != nil {
		fmt.Println("cannot read replay file:", err)
		return 2
	}
	var rf struct {
		Signature string `json:"signature"`
		First     string `json:"first_seen_in"`
	}
	if json.Unmarshal(b, &rf) != nil || rf.Signature == "" {
		fmt.Println("not a race replay file")
		return 2
	}
	verifDir := os.Getenv("VSIM_VERIF")
	if verifDir == "" {
		verifDir = "/verif"
	}
	outDir, err := os.MkdirTemp(filepath.Join(verifDir, ".cache"), "race-replay-")
	if err != nil {
		fmt.Println("harness:", err)
		return 2
	}
	defer os.RemoveAll(outDir)
	viol, stats, harness := raceMode(verifDir, outDir, filepath.Join(outDir, "replays"), "quick", envU64("VERIF_SEED", 1), runtime.NumCPU())
	for _, h := range harness {
		fmt.Println("HARNESS:", h)
	}
	fmt.Println("race mode re-run:", stats)
	for _, v := range viol {
		if strings.Contains(v.Detail, rf.Signature) {
			fmt.Printf("REPRODUCED C05/race: %s\n", v.Detail)
			fmt.Printf("VIOLATION property=C05 replay=%s\n", path)
			return 1
		}
	}
	fmt.Printf("NOT REPRODUCED: signature %q did not show up in this re-run\n", rf.Signature)
	return 0
}

func driverMain() int {
	if p := os.Getenv("VSIM_RACE_REPLAY"); p != "" {
		return raceReplay(p)
	}
	if n := envInt("VSIM_SELFTEST", 0); n > 0 {
		verifDir := os.Getenv("VSIM_VERIF")
		if verifDir == "" {
			verifDir = "/verif"
		}
		os.MkdirAll(filepath.Join(verifDir, ".cache"), 0o755)
		rc := 0
		for _, p := range []string{"C01", "C02", "C03", "C04", "C05", "C06", "C07", "C08", "C15", "C17"} {
			ok, msg := selfTest(verifDir, p, "quick", envU64("VERIF_SEED", 1), n, []int{1, 4, 16, 4})
			fmt.Printf("selftest %s: ok=%v %s\n", p, ok, msg)
			if !ok {
				rc = 2
			}
		}
		return rc
	}
	prop := os.Getenv("VSIM_PROP")
	tier := os.Getenv("VSIM_TIER")
	if tier == "" {
		tier = "quick"
	}
	seed := envU64("VERIF_SEED", 1)
	verifDir := os.Getenv("VSIM_VERIF")
	if verifDir == "" {
		verifDir = "/verif"
	}
	nw := envInt("VSIM_WORKERS", runtime.NumCPU())
	start := time.Now()
	outDir, err := os.MkdirTemp(filepath.Join(verifDir, ".cache"), "run-"+prop+"-")
	if err != nil {
		fmt.Println("harness: cannot create scratch dir:", err)
		return 2
	}
	defer os.RemoveAll(outDir)
	replayDir := filepath.Join(verifDir, "replays")
	if d := os.Getenv("VSIM_REPLAYS"); d != "" {
		replayDir = d // sensitivity runs keep their scratch replays elsewhere
	}
	budget := tierBudget(prop, tier)
	fmt.Printf("VERIF_SEED=%d property=%s tier=%s workers=%d budget=%v\n", seed, prop, tier, nw, budget)

	type wres struct {
		out    *WorkerOut
		err    error
		stderr string
		code   int
	}
	results := make([]wres, nw)
	var wg sync.WaitGroup
	for w := 0; w < nw; w++ {
		wg.Add(1)
		go func(w int) {
			defer wg.Done()
			cmd := limitedCommand(os.Args[0], "-test.run", "^TestWorker$", "-test.count", "1", "-test.timeout", "0")
			cmd.Env = append(os.Environ(), "VSIM_MODE=worker", fmt.Sprintf("VSIM_WORKER=%d", w), fmt.Sprintf("VSIM_WORKERS=%d", nw),
				"VSIM_OUTDIR="+outDir, "VSIM_REPLAYDIR="+replayDir, fmt.Sprintf("VSIM_BUDGET_MS=%d", budget.Milliseconds()),
				"VSIM_TIER="+tier, fmt.Sprintf("GOMAXPROCS=%d", 1+w%2), "GOMEMLIMIT=1500MiB", fmt.Sprintf("VERIF_SEED=%d", seed))
			// (even workers run on one P: after an unbuffered hand-over the sending
			// goroutine runs on until it blocks - the reader gets ahead of the parser;
			// with two Ps the receiver usually wins. Outcomes on a correct tree do not
			// depend on it - see the determinism self-test - but defects do.)
			var stderr bytes.Buffer
			cmd.Stderr = &stderr
			cmd.Stdout = &stderr
			err := cmd.Run()
			r := wres{err: err, stderr: stderr.String()}
			if cmd.ProcessState != nil {
				r.code = cmd.ProcessState.ExitCode()
			}
			if b, e := os.ReadFile(filepath.Join(outDir, fmt.Sprintf("worker-%d.json", w))); e == nil {
				var o WorkerOut
				if json.Unmarshal(b, &o) == nil {
					r.out = &o
				}
			}
			results[w] = r
		}(w)
	}
	wg.Wait()

	known := loadKnown(filepath.Join(verifDir, "known_findings.json"))
	total := &WorkerOut{ClassCount: map[string]int{}}
	exit := 0
	var harness []string
	distinct := map[uint64]struct{}{}
	var allViol []ViolationOut
	for w, r := range results {
		if r.out == nil {
			// the worker died: a panic on a library goroutine kills the process
			curb, _ := os.ReadFile(filepath.Join(outDir, fmt.Sprintf("worker-%d.cur", w)))
			tail := r.stderr
			if len(tail) > 9000 {
				tail = tail[:3000] + "\n[...]\n" + tail[len(tail)-6000:]
			}
			if vb, e := os.ReadFile(filepath.Join(outDir, fmt.Sprintf("worker-%d.viol.jsonl", w))); e == nil {
				for _, line := range bytes.Split(vb, []byte{'\n'}) {
					var vo ViolationOut
					if len(line) > 0 && json.Unmarshal(line, &vo) == nil {
						allViol = append(allViol, vo)
						total.ClassCount[vo.Property+"/"+vo.Rule]++
					}
				}
			}
			if v, ok := classifyCrash(prop, curb, r.stderr, replayDir); ok {
				allViol = append(allViol, v)
				total.ClassCount[v.Property+"/"+v.Rule]++
			} else {
				harness = append(harness, fmt.Sprintf("worker %d died (exit %d) and it is not attributable to library code:\n%s", w, r.code, tail))
			}
			continue
		}
		o := r.out
		total.Cases += o.Cases
		if o.MaxHeapMB > total.MaxHeapMB {
			total.MaxHeapMB = o.MaxHeapMB
		}
		total.EnumCases += o.EnumCases
		total.EnumTotal = o.EnumTotal
		total.Nontrivial += o.Nontrivial
		mergeStats(&total.Stats, &o.Stats)
		for k, v := range o.ClassCount {
			total.ClassCount[k] += v
		}
		harness = append(harness, o.Harness...)
		allViol = append(allViol, o.Violations...)
		if len(total.Samples) < 3 {
			total.Samples = append(total.Samples, o.Samples...)
		}
		if hb, e := os.ReadFile(filepath.Join(outDir, fmt.Sprintf("worker-%d.hashes", w))); e == nil {
			for i := 0; i+8 <= len(hb); i += 8 {
				distinct[binary.LittleEndian.Uint64(hb[i:])] = struct{}{}
			}
		}
	}
	// determinism self-test on this property's own cases
	stN, stProcs := 150, []int{1, 16}
	if tier == "thorough" {
		stN, stProcs = 2000, []int{1, 4, 16, 16}
	}
	stOK, stMsg := selfTest(verifDir, prop, tier, seed, stN, stProcs)
	if !stOK {
		harness = append(harness, "determinism "+stMsg)
	}
	selfTestNote = stMsg
	// race mode (C05 only)
	raceNote := ""
	var raceStats map[string]interface{}
	if prop == "C05" {
		rv, rs, rh := raceMode(verifDir, outDir, replayDir, tier, seed, nw)
		allViol = append(allViol, rv...)
		raceStats = rs
		harness = append(harness, rh...)
		raceNote = fmt.Sprint(rs)
	}
	_ = raceNote

	// report
	knownHit := map[string]*KnownFinding{}
	printed := map[string]int{}
	unknown := 0
	sort.Slice(allViol, func(i, j int) bool { return allViol[i].Replay < allViol[j].Replay })
	for _, v := range allViol {
		if k := matchKnown(known, v); k != nil {
			key := k.Property + "/" + k.Rule + "/" + k.Match + strings.Join(k.MatchAll, "+")
			if _, dup := knownHit[key]; dup || !strings.Contains(v.Replay, "-race-") {
				os.Remove(v.Replay) // listed finding: one report file per entry is enough
			}
			knownHit[key] = k
			continue
		}
		unknown++
		cls := v.Property + "/" + v.Rule
		printed[cls]++
		if printed[cls] > 3 {
			os.Remove(v.Replay) // same class, already reported three times
			continue
		}
		fmt.Printf("VIOLATION property=%s replay=%s\n", v.Property, v.Replay)
		fmt.Printf("  rule=%s seed=%d %s\n", v.Rule, v.Seed, v.Detail)
	}
	for _, k := range knownHit {
		fmt.Printf("KNOWN-FINDING: property=%s %s\n", k.Property, k.What)
	}
	if unknown > 0 {
		exit = 1
	}
	if len(harness) > 0 {
		for _, h := range harness {
			fmt.Println("HARNESS:", h)
		}
		if exit == 0 {
			exit = 2
		}
	}
	wall := time.Since(start).Seconds()
	if os.Getenv("VSIM_NO_EVIDENCE") != "1" {
		writeEvidence(verifDir, prop, tier, seed, total, len(distinct), unknown, len(knownHit), wall, nw, raceStats, total.ClassCount)
	}
	if pat := os.Getenv("VSIM_SHOW_PROBES"); pat != "" {
		var names []string
		for k := range total.Stats.Probes {
			if strings.Contains(k, pat) {
				names = append(names, k)
			}
		}
		sort.Strings(names)
		for _, k := range names {
			fmt.Printf("PROBE %s=%d\n", k, total.Stats.Probes[k])
		}
	}
	fmt.Printf("property=%s tier=%s cases=%d (enumerated %d of %d) runs=%d steps=%d distinct_nontrivial=%d violations=%d known=%d wall=%.1fs exit=%d\n",
		prop, tier, total.Cases, total.EnumCases, total.EnumTotal, total.Stats.Runs, total.Stats.Steps, len(distinct), unknown, len(knownHit), wall, exit)
	return exit
}

// classifyCrash decides whether a dead worker was killed by a panic in library
// code (a violation) or by harness trouble.
func classifyCrash(prop string, cur []byte, stderr, replayDir string) (ViolationOut, bool) {
	rule := "panic"
	idx := strings.Index(stderr, "panic: ")
	if i := strings.Index(stderr, "fatal error: "); i >= 0 && (idx < 0 || i < idx) {
		idx = i
		if j := strings.LastIndex(stderr[:i], "runtime: out of memory"); j >= 0 {
			idx = j
		}
	}
	firstFrame := ""
	body := ""
	if idx >= 0 {
		body = stderr[idx:]
		// the failing goroutine is the first one printed; find its first non-runtime frame
		seenG := false
		for _, l := range strings.Split(body, "\n")[1:] {
			l = strings.TrimSpace(l)
			if strings.HasPrefix(l, "goroutine ") {
				if seenG {
					break
				}
				seenG = true
				continue
			}
			if l == "" || strings.HasPrefix(l, "[") || strings.HasPrefix(l, "/") || strings.HasPrefix(l, "fatal error") {
				continue
			}
			if strings.HasPrefix(l, "runtime.") || strings.HasPrefix(l, "panic(") || strings.HasPrefix(l, "internal/") || strings.HasPrefix(l, "runtime:") {
				continue
			}
			firstFrame = l
			break
		}
	} else if w := strings.LastIndex(stderr, "WATCHDOG: "); w >= 0 && strings.Contains(stderr[w:], "WATCHDOG-SECOND-DUMP") && !strings.Contains(stderr[w:], "WATCHDOG-CLEARED") {
		// a case that never ends: attributable only if, in both dumps, a running or
		// runnable goroutine has a library function as its innermost non-runtime
		// frame (it is executing library code, not parked in the harness)
		rule = "hang"
		body = stderr[w:]
		parts := strings.SplitN(body, "WATCHDOG-SECOND-DUMP", 2)
		spin := func(dump string) string {
			for _, g := range strings.Split(dump, "\n\n") {
				lines := strings.Split(g, "\n")
				// spinning in library code, or parked on a lock (sync.Mutex / RWMutex /
				// WaitGroup: not "durably" blocked, so the simulation cannot step) that
				// library code tried to take
				if len(lines) < 2 || !(strings.Contains(lines[0], "[running") || strings.Contains(lines[0], "[runnable") ||
					strings.Contains(lines[0], "[sync.Mutex.Lock") || strings.Contains(lines[0], "[sync.RWMutex") ||
					strings.Contains(lines[0], "[semacquire") || strings.Contains(lines[0], "[sync.WaitGroup.Wait")) {
					continue
				}
				for _, l := range lines[1:] {
					l = strings.TrimSpace(l)
					if l == "" || strings.HasPrefix(l, "/") || strings.HasPrefix(l, "goroutine ") || strings.HasPrefix(l, "created by ") || stdFrame(l) {
						continue
					}
					if libFrame(l) {
						return l
					}
					break // innermost non-runtime frame is not library code
				}
			}
			return ""
		}
		a, b2 := spin(parts[0]), spin(parts[1])
		if a != "" && b2 != "" {
			firstFrame = b2
		}
	} else {
		return ViolationOut{}, false
	}
	if !libFrame(firstFrame) {
		return ViolationOut{}, false
	}
	if j := strings.Index(firstFrame, "("); j > 0 && strings.HasSuffix(firstFrame, ")") {
		if k := strings.LastIndex(firstFrame, "("); k > 0 {
			firstFrame = firstFrame[:k]
		}
	}
	var spec CaseSpec
	json.Unmarshal(bytes.TrimSpace(cur), &spec)
	v := Violation{Property: prop, Rule: rule, Detail: "the worker process died: " + firstLine(body) + " in " + firstFrame}
	rf := ReplayFile{Property: prop, Rule: rule, Detail: v.Detail, Spec: spec, ProcessDied: true}
	if len(body) > 4000 {
		body = body[:4000]
	}
	rf.Stderr = body
	b, _ := json.MarshalIndent(rf, "", " ")
	os.MkdirAll(replayDir, 0o755)
	path := filepath.Join(replayDir, fmt.Sprintf("%s-%s-%d-%016x.json", prop, rule, spec.Seed, hashStrings(string(b))))
	os.WriteFile(path, b, 0o644)
	return ViolationOut{prop, rule, v.Detail, path, spec.Seed}, true
}

var propLevels = map[string]string{"C01": "exploration", "C02": "exploration", "C03": "exploration", "C04": "fault_enumeration",
	"C05": "fault_enumeration", "C06": "fault_enumeration", "C07": "exploration", "C08": "exploration", "C15": "exploration", "C17": "fault_enumeration"}

var propRules = map[string]string{
	"C01": "a case = generated multi-file RBR history (tape stream 'hist') x start position x handshake/segmentation/pacing schedule; real Stream() runs to the end; non-trivial = at least one transaction was delivered and compared field by field with the reference model; distinct = hash of (history+start+config, realised schedule signature)",
	"C02": "a case = sequence of binlog units (exhaustive over unit kinds up to the tier's length, random beyond) with ignorable events and heartbeats in the gaps and random casing; non-trivial = at least one delivery; distinct by (history, schedule) hash",
	"C03": "a case = history with rotations/large offsets, main run + resume runs from delivered end labels; non-trivial = at least two deliveries in the main run; distinct by (history, schedule) hash",
	"C04": "a case = small history x up to 3 fault attempts + 1 fault-free attempt on one Streamer; enumerated part sweeps fault kind x packet/call index x pacing x handler-blocked; non-trivial = a fault fired inside in-flight state (reader holding an event, handler parked, mid-packet or after >2 packets) and at least one transaction was delivered; distinct by (history, fault plan, realised schedule) hash",
	"C05": "same fault matrix plus connection-phase faults and read timeouts; non-trivial = fault fired in in-flight state or in the connection phase; distinct by (history, fault plan, realised schedule) hash",
	"C06": "same fault matrix with arbitrary ERR codes/messages; non-trivial as C05",
	"C07": "a case = 1-4 attempts on one Streamer with boundary server ids, multi-file histories, large offsets; non-trivial = more than one attempt (later attempts use the stored resume position); distinct by (history, plan, schedule) hash",
	"C08": "a case = history with packet sizes around the driver's 4096-byte buffer, run twice from the same tape (well-behaved handler / overwriting handler); non-trivial = at least two deliveries; distinct by (history, schedule) hash",
	"C15": "a case = several table ids interleaved inside and across transactions, wide tables, mapper faults; non-trivial = at least one delivery; distinct by (history, schedule) hash",
	"C17": "a case = malformed event payload (classes: empty, <19 bytes, truncated/extended real events, wrong length field, garbage) injected at every packet index of small histories, followed by a clean attempt; non-trivial = the malformed packet was delivered after in-flight state existed",
}

func writeEvidence(verifDir, prop, tier string, seed uint64, total *WorkerOut, distinct, violations, knownHits int, wall float64, nw int, race map[string]interface{}, classes map[string]int) {
	st := total.Stats
	perHour := func(n int) float64 {
		if wall <= 0 {
			return 0
		}
		return float64(n) / wall * 3600
	}
	cov := map[string]interface{}{
		"evaluations":            total.Cases,
		"distinct_nontrivial":    distinct,
		"rule":                   propRules[prop],
		"samples":                total.Samples,
		"simulated_runs":         st.Runs,
		"runs_per_hour":          perHour(st.Runs),
		"seeds_per_hour":         perHour(total.Cases),
		"controller_steps":       st.Steps,
		"simulated_time_s":       st.SimTime.Seconds(),
		"stream_attempts":        st.Attempts,
		"transactions_delivered": st.Deliveries,
		"faults_fired":           st.Faults,
		"reach_probes":           st.Probes,
		"enumerated_cases":       total.EnumCases,
		"enumeration_space":      total.EnumTotal,
		"nontrivial_cases":       total.Nontrivial,
		"workers":                nw,
		"max_worker_heap_mb":     total.MaxHeapMB,
		"violation_classes_seen": classes,
		"known_findings_hit":     knownHits,
		"real_components":        []string{"gobinlog (Streamer, parser, slave connection)", "gobinlog/replication (all decoders)", "Breeze0806/mysql (connector, handshake, auth, packet framing, read buffer, watcher, Close)", "Breeze0806/go/log"},
		"simulated_components":   []string{"TCP (in-memory net.Conn with segmentation, FIN, RST, deadlines on the fake clock)", "MySQL master (handshake, COM_QUERY, COM_BINLOG_DUMP, dump thread)", "table mapper", "transaction handler", "caller context", "clock (testing/synctest)"},
		"exhaustive":             false,
	}
	if race != nil {
		cov["race_mode"] = race
	}
	cov["determinism_self_test"] = selfTestNote
	if len(total.Samples) == 0 {
		cov["samples"] = []interface{}{"no non-trivial case was produced in this run"}
	}
	ev := map[string]interface{}{
		"property_id": prop,
		"tier":        tier,
		"seed":        int64(seed & (1<<62 - 1)),
		"level":       propLevels[prop],
		"coverage":    cov,
		"assumptions": []string{
			"the simulated master models MySQL's dump thread from the protocol documentation (no real server is available offline)",
			"goroutine scheduling between quiescent points is left to the Go runtime; outcomes at quiescent points do not depend on it for the unchanged tree (determinism self-test)",
			"inputs stay inside what a MySQL master can emit (see DESIGN.md section 4, generator exclusions)",
		},
		"wall_s":     wall,
		"violations": violations,
	}
	b, _ := json.MarshalIndent(ev, "", " ")
	os.MkdirAll(filepath.Join(verifDir, "evidence"), 0o755)
	os.WriteFile(filepath.Join(verifDir, "evidence", prop+".json"), b, 0o644)
}
