package verifsim

// simMaster: a model of the MySQL server side of one replica connection:
// handshake v10, authentication result, COM_QUERY, COM_BINLOG_DUMP and the
// dump thread's event stream. Reactive and causal: a response is put on the
// wire only when the request bytes have reached it.

import (
	"fmt"
	"strings"
)

type stopKind int

const (
	stopNone stopKind = iota
	// stream-composed causes (the master / the network ends the attempt)
	stopFIN
	stopRST
	stopShortPacket
	stopBadSeq
	stopERR
	stopEOF
	stopInvalidEvent
	stopUnsupportedEvent
	// environment causes
	stopCancel
	stopHandlerErr
	stopMapperErr
	stopMapperMiscount
	stopTimeout
	// connection-phase causes
	stopDialErr
	stopHandshakeFIN
	stopHandshakeGarbage
	stopAuthErr
	stopSetErr
	stopDumpWriteErr
	stopCancelInHandshake
	stopCancelAtDial
	numStopKinds
)

var stopNames = []string{"none", "fin", "rst", "short-packet", "bad-seq", "err-packet", "eof-packet",
	"invalid-event", "unsupported-event", "cancel", "handler-error", "mapper-error", "mapper-miscount",
	"read-timeout", "dial-error", "handshake-fin", "handshake-garbage", "auth-error", "set-error",
	"dump-write-error", "cancel-in-handshake", "cancel-at-dial"}

func (k stopKind) String() string { return stopNames[k] }

func (k stopKind) streamComposed() bool { return k >= stopFIN && k <= stopUnsupportedEvent }
func (k stopKind) connPhase() bool      { return k >= stopDialErr }

// StreamPlan tells the master how the event stream of one attempt ends.
type StreamPlan struct {
	Kind              stopKind
	AtPacket          int // index into the packet list; clipped to its length
	ByteOff           int // short packet: bytes of that packet that still arrive (clipped to 1..len-1)
	ErrCode           uint16
	ErrMsg            string
	ThenFIN           bool
	Invalid           []byte // invalid-event payload
	FirstByte         byte   // status byte in front of the malformed event (0 = OK as for every event; anything but 0xfe / 0xff is not an EOF or ERR packet either)
	After             int    // invalid-event: what the master sends right behind the malformed packet(s): 0 the rest of the stream, 1 an EOF packet, 2 an ERR packet, 3 nothing - it closes the connection
	GateAccepted      bool   // the "invalid" payload is a bare 19..22-byte header with a consistent length: the gate accepts it; only "no panic" is judged
	Second            bool   // a second, short malformed packet follows the injected one at once
	Invalid2          []byte
	BadType           byte   // unsupported event type
	BadVariant        int    // 0 = an event type the library refuses; 1.. = a known type whose body cannot be decoded (see startDump)
	BadBytes          []byte // random filler of the undecodable variants
	SeqDelta          int    // bad-seq: +1 (skipped) or -1 (repeated)
	Heartbeat         int    // 1/n chance of a heartbeat at each unit boundary (0 = none)
	HeartbeatAnywhere bool   // also between the events of a unit (1/4n each)
	hbSeed            uint64
}

// DumpReq is what the master decoded from COM_BINLOG_DUMP.
type DumpReq struct {
	Offset      uint32
	Flags       uint16
	ServerID    uint32
	File        string
	QueriesSeen int // COM_QUERY packets received before it on this connection
	Served      bool
	Refused     string
}

type wirePacket struct {
	payload []byte
	ev      *Event
	kind    string
	end     int // cumulative end offset in the dump byte stream
}

// MasterLog is what the master observed on one connection.
type MasterLog struct {
	Queries       []string
	Dumps         []DumpReq
	OtherCmds     []string
	CmdsAfterDump []string
	QuitSeen      bool
	ClientClosed  bool
	BytesFromCli  int
	AuthSeen      bool
}

type simMaster struct {
	setErrVariant int // set-error: 0 ERR packet, 1 OK with a wrong sequence id, 2 unreadable reply
	openCk        int // checksum of the dump's opening artificial ROTATE: 0 as the start file, 1 as the newest file (the connect-time global setting), 2 the opposite of the start file
	causeAt       int // index (in packets) of the packet that carries the stream-composed cause
	h             *History
	conn          *simConn
	plan          StreamPlan
	connPlan      stopKind
	log           MasterLog

	inbuf    []byte
	phase    int // 0 awaiting handshake response, 1 command phase, 2 dumping
	packets  []wirePacket
	dumpBase int      // conn.delivered+len(wire) when the dump stream started
	tail     stopKind // what happens when the wire is exhausted: stopNone (idle), stopFIN, stopRST
	served   Pos
	dumpLen  int
}

const (
	phHandshake = iota
	phCommand
	phDumping
)

func packetize(payload []byte, seq *byte) []byte {
	out := make([]byte, 0, len(payload)+8)
	for {
		n := len(payload)
		if n >= 1<<24-1 {
			n = 1<<24 - 1
		}
		out = append(out, byte(n), byte(n>>8), byte(n>>16), *seq)
		*seq++
		out = append(out, payload[:n]...)
		payload = payload[n:]
		if n < 1<<24-1 {
			return out
		}
	}
}

func (m *simMaster) emit(payload []byte, seq *byte) {
	m.conn.wire = append(m.conn.wire, packetize(payload, seq)...)
}

// greet puts the initial handshake on the wire (the server speaks first).
func (m *simMaster) greet() {
	p := []byte{10}
	p = append(p, "5.7.44-sim"...)
	p = append(p, 0)
	p = le32(p, 77)                    // connection id
	p = append(p, "abcdefgh"...)       // auth data part 1
	p = append(p, 0)                   // filler
	p = le16(p, 0xf7ff)                // capabilities lower (protocol41, secure conn, ... no SSL)
	p = append(p, 33)                  // charset
	p = le16(p, 2)                     // status
	p = le16(p, 0x81ff&^0x0800)        // capabilities upper (plugin auth)
	p = append(p, 21)                  // auth data len
	p = append(p, make([]byte, 10)...) // reserved
	p = append(p, "ijklmnopqrst"...)   // auth data part 2 (12)
	p = append(p, 0)
	p = append(p, "mysql_native_password"...)
	p = append(p, 0)
	seq := byte(0)
	switch m.connPlan {
	case stopHandshakeGarbage:
		// a packet whose sequence id is wrong from the first byte on
		seq = 7
		m.emit(p, &seq)
	default:
		m.emit(p, &seq)
	}
}

func okPacket() []byte  { return []byte{0, 0, 0, 2, 0, 0, 0} }
func eofPacket() []byte { return []byte{0xfe, 0, 0, 2, 0} }

func errPacket(code uint16, state, msg string) []byte {
	p := []byte{0xff}
	p = le16(p, code)
	p = append(p, '#')
	st := (state + "HY000")[:5]
	p = append(p, st...)
	p = append(p, msg...)
	return p
}

// onClientBytes is called with conn.mu held.
func (m *simMaster) onClientBytes(b []byte) {
	m.log.BytesFromCli += len(b)
	m.inbuf = append(m.inbuf, b...)
	for len(m.inbuf) >= 4 {
		n := int(m.inbuf[0]) | int(m.inbuf[1])<<8 | int(m.inbuf[2])<<16
		if len(m.inbuf) < 4+n {
			return
		}
		seq := m.inbuf[3]
		body := append([]byte(nil), m.inbuf[4:4+n]...)
		m.inbuf = m.inbuf[4+n:]
		m.onPacket(seq, body)
	}
}

func (m *simMaster) onClientClose() {
	m.log.ClientClosed = true
}

func (m *simMaster) onPacket(seq byte, body []byte) {
	switch m.phase {
	case phHandshake:
		m.log.AuthSeen = true
		rs := seq + 1
		if m.connPlan == stopAuthErr {
			m.emit(errPacket(1045, "28000", "Access denied for user 'u'@'sim' (using password: YES)"), &rs)
			m.tail = stopFIN
			m.phase = phCommand
			return
		}
		m.emit(okPacket(), &rs)
		m.phase = phCommand
	case phCommand, phDumping:
		if len(body) == 0 {
			m.log.OtherCmds = append(m.log.OtherCmds, "empty")
			return
		}
		rs := seq + 1
		cmd := body[0]
		if m.phase == phDumping {
			name := fmt.Sprintf("cmd-0x%02x", cmd)
			if cmd == 0x01 {
				name = "COM_QUIT"
			}
			m.log.CmdsAfterDump = append(m.log.CmdsAfterDump, name)
		}
		switch cmd {
		case 0x01: // COM_QUIT
			m.log.QuitSeen = true
		case 0x03: // COM_QUERY
			m.log.Queries = append(m.log.Queries, string(body[1:]))
			if m.phase == phDumping {
				return
			}
			if m.connPlan == stopSetErr {
				switch m.setErrVariant {
				case 1: // a complete OK reply with the wrong sequence id
					rs += 1 + byte(m.setErrVariant)
					m.emit(okPacket(), &rs)
				case 2: // a reply that is neither OK nor ERR nor a well-formed result-set header
					m.emit([]byte{0x05, 0x01, 0x02}, &rs)
				default:
					m.emit(errPacket(1193, "HY000", "Unknown system variable 'binlog_checksum'"), &rs)
				}
				return
			}
			m.emit(okPacket(), &rs)
		case 0x12: // COM_BINLOG_DUMP
			if len(body) < 11 {
				m.log.OtherCmds = append(m.log.OtherCmds, "short COM_BINLOG_DUMP")
				m.emit(errPacket(1047, "08S01", "Unknown command"), &rs)
				return
			}
			d := DumpReq{QueriesSeen: len(m.log.Queries)}
			d.Offset = uint32(body[1]) | uint32(body[2])<<8 | uint32(body[3])<<16 | uint32(body[4])<<24
			d.Flags = uint16(body[5]) | uint16(body[6])<<8
			d.ServerID = uint32(body[7]) | uint32(body[8])<<8 | uint32(body[9])<<16 | uint32(body[10])<<24
			d.File = string(body[11:])
			if m.phase == phDumping {
				d.Refused = "second dump request"
				m.log.Dumps = append(m.log.Dumps, d)
				return
			}
			m.startDump(&d, rs)
			m.log.Dumps = append(m.log.Dumps, d)
		case 0x0e, 0x15: // COM_PING, COM_REGISTER_SLAVE: harmless before a dump request
			m.log.OtherCmds = append(m.log.OtherCmds, fmt.Sprintf("cmd-0x%02x", cmd))
			if m.phase != phDumping {
				m.emit(okPacket(), &rs)
			}
		default:
			m.log.OtherCmds = append(m.log.OtherCmds, fmt.Sprintf("cmd-0x%02x", cmd))
			if m.phase != phDumping {
				m.emit(errPacket(1047, "08S01", "Unknown command"), &rs)
			}
		}
	}
}

// fakeRotate: the dump thread builds it with the checksum setting it currently
// holds, i.e. that of the file it has been reading so far.
func (m *simMaster) fakeRotate(file string, pos uint64, withCk bool) []byte {
	cfg := &m.h.Cfg
	return encodeEvent(0, evRotate, cfg.MasterID, 0, flagArtificial, rotateBody(pos, file), withCk)
}

func (m *simMaster) heartbeat(file string, pos uint32, withCk bool) []byte {
	cfg := &m.h.Cfg
	return encodeEvent(0, evHeartbeat, cfg.MasterID, pos, 0, []byte(file), withCk)
}

// startDump validates the coordinate and builds the whole outgoing stream.
func (m *simMaster) startDump(d *DumpReq, seq byte) {
	h := m.h
	refuse := func(msg string) {
		d.Refused = msg
		m.emit(errPacket(1236, "HY000", msg), &seq)
		m.tail = stopFIN
		m.phase = phDumping
	}
	fi := h.fileIndex(d.File)
	switch {
	case fi < 0:
		refuse("Could not find first log file name in binary log index file")
		return
	case d.Offset < 4:
		refuse("Client requested master to start replication from position < 4")
		return
	case d.Offset > h.Files[fi].Size:
		refuse("Client requested master to start replication from position > file size")
		return
	case !h.IsEventBoundary(Pos{d.File, int64(d.Offset)}):
		refuse("bogus data in log event; the first event '' at " + fmt.Sprint(d.Offset) + " is not an event boundary")
		return
	}
	d.Served = true
	m.served = Pos{d.File, int64(d.Offset)}
	m.phase = phDumping

	var pk []wirePacket
	add := func(raw []byte, ev *Event, kind string) {
		pk = append(pk, wirePacket{payload: append([]byte{0}, raw...), ev: ev, kind: kind})
	}
	hb := splitmix{s: m.plan.hbSeed}
	for f := fi; f < len(h.Files); f++ {
		file := h.Files[f]
		start := uint32(4)
		if f == fi {
			start = d.Offset
		}
		ck := file.Checksum
		if f > fi {
			ck = h.Files[f-1].Checksum
		} else {
			// before the first format description the replica cannot know whether the
			// artificial ROTATE carries a checksum: the dump thread goes by the
			// connection's setting (the global one at connect time), not by the file's
			switch m.openCk {
			case 1:
				ck = h.Files[len(h.Files)-1].Checksum
			case 2:
				ck = !file.Checksum
			}
		}
		add(m.fakeRotate(file.Name, uint64(start), ck), nil, "fake-rotate")
		fde := file.Head[0]
		if start > 4 {
			// the dump thread sends the format description with next_position 0
			add(patchNextPos(fde.Raw, 0, true), fde, "fde")
		}
		lastUnit := -2
		for _, e := range file.Events {
			if e.Offset < start {
				continue
			}
			if m.plan.Heartbeat > 0 && e.Unit != lastUnit && e.Unit >= 0 && e.Offset == h.Units[e.Unit].Start {
				if hb.next()%uint64(m.plan.Heartbeat) == 0 {
					add(m.heartbeat(file.Name, e.Offset, file.Checksum), nil, "heartbeat")
				}
			} else if m.plan.Heartbeat > 0 && m.plan.HeartbeatAnywhere && e.Unit >= 0 && e.Offset > start {
				// a slow master: heartbeats between any two events, also inside a transaction
				if hb.next()%uint64(m.plan.Heartbeat*4) == 0 {
					add(m.heartbeat(file.Name, e.Offset, file.Checksum), nil, "heartbeat")
				}
			}
			lastUnit = e.Unit
			kind := "event"
			if e.Type == evFormatDesc {
				kind = "fde"
			}
			add(e.Raw, e, kind)
		}
	}

	// apply the stream-composed stop cause
	p := m.plan
	at := p.AtPacket
	if at > len(pk) {
		at = len(pk)
	}
	if at < 0 {
		at = 0
	}
	if p.Kind == stopBadSeq && at >= len(pk) {
		at = len(pk) - 1
	}
	m.tail = stopNone
	cut := -1 // byte offset (in the dump stream) where the stream is cut, -1 = not cut
	insert := func(w wirePacket) {
		pk = append(pk[:at:at], append([]wirePacket{w}, pk[at:]...)...)
	}
	switch p.Kind {
	case stopFIN, stopRST:
		pk = pk[:at]
		m.tail = p.Kind
	case stopShortPacket:
		if at >= len(pk) {
			at = len(pk) - 1
		}
		pk = pk[:at+1]
		m.tail = stopFIN
	case stopERR:
		pk = append(pk[:at:at], wirePacket{payload: errPacket(p.ErrCode, "HY000", p.ErrMsg), kind: "err"})
		if p.ThenFIN {
			m.tail = stopFIN
		}
	case stopEOF:
		pk = append(pk[:at:at], wirePacket{payload: eofPacket(), kind: "eof"})
		if p.ThenFIN {
			m.tail = stopFIN
		}
	case stopInvalidEvent:
		if p.Second {
			insert(wirePacket{payload: append([]byte{0}, p.Invalid2...), kind: "invalid2"})
		}
		insert(wirePacket{payload: append([]byte{p.FirstByte}, p.Invalid...), kind: "invalid"})
		if p.After > 0 {
			end := at + 1
			if p.Second {
				end++
			}
			if end < len(pk) {
				pk = pk[:end:end]
			}
			switch p.After {
			case 1:
				pk = append(pk, wirePacket{payload: eofPacket(), kind: "eof"})
			case 2:
				pk = append(pk, wirePacket{payload: errPacket(1236, "HY000", "binlog truncated in the middle of event; consider out of disk space on master"), kind: "err"})
			case 3:
				m.tail = stopFIN
			}
		}
	case stopUnsupportedEvent:
		var body []byte
		switch p.BadType {
		case evIntVar:
			body = append([]byte{2}, le64(nil, 42)...)
		case evRand:
			body = append(le64(nil, 1), le64(nil, 2)...)
		default:
			q := "INSERT INTO t VALUES (1)"
			body = append([]byte{byte(len(q))}, q...)
		}
		// the injected event follows the checksum setting in force at that point of the stream
		ckAt := h.Files[fi].Checksum
		for k := 0; k < at && k < len(pk); k++ {
			if pk[k].ev != nil {
				ckAt = h.Files[pk[k].ev.File].Checksum
			}
		}
		typ := p.BadType
		// undecodable variants: header and length are fine (the validity gate lets
		// them through), the body is one the decoder of that type reports an error for
		qfix := func(dbLen byte, vars []byte) []byte {
			b := le32(nil, 7)
			b = le32(b, 0)
			b = append(b, dbLen)
			b = le16(b, 0)
			b = le16(b, uint16(len(vars)))
			return append(b, vars...)
		}
		switch p.BadVariant {
		case 1: // ROTATE without room for the 8-byte position
			typ = evRotate
			body = append([]byte(nil), p.BadBytes[:minInt(len(p.BadBytes), 7)]...)
		case 2: // QUERY whose schema name runs past the end of the event
			typ = evQuery
			body = append(qfix(200, nil), p.BadBytes[:minInt(len(p.BadBytes), 30)]...)
		case 3: // QUERY whose charset status variable is cut
			typ = evQuery
			body = append(qfix(1, []byte{4, 33, 0}), "d\x00BEGIN"...)
		case 4: // QUERY whose catalog status variable has no length byte
			typ = evQuery
			body = append(qfix(1, []byte{6}), "d\x00COMMIT"...)
		case 5: // FORMAT_DESCRIPTION of binlog version 3
			typ = evFormatDesc
			body = fdeBody(h.Cfg.Format, 0)
			body[0] = 3
			ckAt = true
		case 6: // FORMAT_DESCRIPTION announcing a 10-byte event header
			typ = evFormatDesc
			body = fdeBody(h.Cfg.Format, 0)
			body[2+50+4] = 10
			ckAt = true
		}
		raw := encodeEvent(1500000000, typ, h.Cfg.MasterID, 0, 0, body, ckAt)
		if p.Second {
			insert(wirePacket{payload: append([]byte{0}, p.Invalid2...), kind: "invalid2"})
		}
		insert(wirePacket{payload: append([]byte{0}, raw...), kind: "unsupported"})
	}
	// serialise
	stream := make([]byte, 0, 4096)
	for i := range pk {
		if p.Kind == stopBadSeq && i == at {
			seq = byte(int(seq) + p.SeqDelta)
			if p.SeqDelta == 0 {
				seq += 2
			}
		}
		stream = append(stream, packetize(pk[i].payload, &seq)...)
		pk[i].end = len(stream)
		if p.Kind == stopShortPacket && i == len(pk)-1 {
			plen := len(pk[i].payload) + 4
			start := len(stream) - plen
			off := p.ByteOff
			if off < 1 {
				off = 1
			}
			if off > plen-1 {
				off = plen - 1
			}
			cut = start + off
		}
	}
	if cut >= 0 {
		stream = stream[:cut]
	}
	m.packets = pk
	m.causeAt = at
	m.dumpBase = m.conn.delivered + len(m.conn.wire)
	m.dumpLen = len(stream)
	m.conn.wire = append(m.conn.wire, stream...)
}

// packetsDelivered returns how many packets of the dump stream have been
// delivered completely to the client side of the connection.
func (m *simMaster) packetsDelivered() int {
	got := m.conn.delivered - m.dumpBase
	n := 0
	for n < len(m.packets) && m.packets[n].end <= got {
		n++
	}
	return n
}

// nextPacketBoundary returns how many bytes must be delivered to reach the end
// of the packet that contains the next undelivered byte.
func (m *simMaster) bytesToPacketEnd() int {
	got := m.conn.delivered - m.dumpBase
	for i := range m.packets {
		if m.packets[i].end > got {
			return m.packets[i].end - got
		}
	}
	return len(m.conn.wire)
}

func (d DumpReq) String() string {
	s := fmt.Sprintf("dump(%s:%d flags=%#x server-id=%d after %d queries)", d.File, d.Offset, d.Flags, d.ServerID, d.QueriesSeen)
	if d.Refused != "" {
		s += " refused: " + d.Refused
	}
	return s
}

func hasChecksumSet(queries []string) bool {
	for _, q := range queries {
		l := strings.ToLower(q)
		if strings.Contains(l, "@master_binlog_checksum") && strings.HasPrefix(strings.TrimSpace(l), "set") {
			return true
		}
	}
	return false
}
