package verifsim

import (
	"fmt"
	"os"
	"strconv"
	"testing"
)

func TestSmoke(t *testing.T) {
	n := 20
	if v := os.Getenv("SMOKE_N"); v != "" {
		n, _ = strconv.Atoi(v)
	}
	bad := 0
	for i := 0; i < n; i++ {
		tape := NewTape(uint64(1000 + i))
		sc := genScenarioC01(tape, false)
		r := Execute(t, sc, tape)
		if r.HarnessErr != "" {
			t.Fatalf("seed %d harness: %s", i, r.HarnessErr)
		}
		att := r.Results[0]
		vs := checkDeliveries("C01", sc.Hist, sc.Start, att.Calls, 0, true)
		if len(vs) > 0 || att.StreamErr != nil {
			bad++
			if bad < 6 {
				fmt.Printf("seed %d: %v streamErr=%v causes=%v steps=%d\n", 1000+i, vs, errText(att.StreamErr), att.Causes, att.Steps)
				fmt.Printf("   %v\n", describeScenario(sc))
			}
		}
	}
	fmt.Printf("bad=%d of %d\n", bad, n)
}

// The simulated socket's copy into the driver's buffer is the driver's access;
// anything else the harness does on a library goroutine is the harness's.
func TestRaceAccessClassification(t *testing.T) {
	driverRead := []string{"runtime.slicecopy", "verifsim.(*simConn).Read", "github.com/Breeze0806/mysql.(*buffer).fill", "github.com/Breeze0806/mysql.(*mysqlConn).readPacket"}
	if accessInHarness(driverRead) {
		t.Fatal("copy into the caller's buffer inside simConn.Read classified as harness access")
	}
	driverWrite := []string{"runtime.slicecopy", "verifsim.(*simMaster).onClientBytes", "verifsim.(*simConn).Write", "github.com/Breeze0806/mysql.(*mysqlConn).writePacket"}
	if accessInHarness(driverWrite) {
		t.Fatal("the simulated master's copy out of the buffer passed to simConn.Write classified as harness access")
	}
	hook := []string{"verifsim.(*Run).onConsumed", "verifsim.(*simConn).Read", "github.com/Breeze0806/mysql.(*buffer).fill"}
	if !accessInHarness(hook) {
		t.Fatal("harness hook called from simConn.Read not classified as harness access")
	}
	lib := []string{"github.com/Breeze0806/mysql.(*mysqlConn).writeCommandPacket", "github.com/Breeze0806/mysql.(*mysqlConn).Close"}
	if accessInHarness(lib) {
		t.Fatal("library access classified as harness access")
	}
	std := []string{"strings.IndexByte", "github.com/Breeze0806/gobinlog.GetStatementCategory"}
	if accessInHarness(std) {
		t.Fatal("standard-library frame below a library frame classified as harness access")
	}
}
