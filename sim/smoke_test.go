package verifsim

import (
	"fmt"
	"os"
	"strconv"
	"testing"
)

func TestSmoke(t *testing.T) {
	n := 20
	if v := os.Getenv("SMOKE_N"); v != "" {
		n, _ = strconv.Atoi(v)
	}
	bad := 0
	for i := 0; i < n; i++ {
		tape := NewTape(uint64(1000 + i))
		sc := genScenarioC01(tape, false)
		r := Execute(t, sc, tape)
		if r.HarnessErr != "" {
			t.Fatalf("seed %d harness: %s", i, r.HarnessErr)
		}
		att := r.Results[0]
		vs := checkDeliveries("C01", sc.Hist, sc.Start, att.Calls, 0, true)
		if len(vs) > 0 || att.StreamErr != nil {
			bad++
			if bad < 6 {
				fmt.Printf("seed %d: %v streamErr=%v causes=%v steps=%d\n", 1000+i, vs, errText(att.StreamErr), att.Causes, att.Steps)
				fmt.Printf("   %v\n", describeScenario(sc))
			}
		}
	}
	fmt.Printf("bad=%d of %d\n", bad, n)
}
