package verifsim

// Replay files and tape minimisation.

import (
	"encoding/json"
	"fmt"
	"os"
	"path/filepath"
	"sort"
	"testing"
	"time"
)

// ReplayFile is what a VIOLATION line points to.
type ReplayFile struct {
	Property    string                 `json:"property"`
	Rule        string                 `json:"rule"`
	Detail      string                 `json:"detail"`
	Attempt     int                    `json:"attempt"`
	Spec        CaseSpec               `json:"case"`
	Minimised   bool                   `json:"minimised"`
	TapeLen     int                    `json:"tape_length"`
	OrigLen     int                    `json:"original_tape_length"`
	Scenario    map[string]interface{} `json:"scenario"`
	Events      []string               `json:"history_events,omitempty"`
	Trace       []string               `json:"schedule_and_fault_trace"`
	Observed    []string               `json:"observed"`
	TraceHash   string                 `json:"trace_hash"`
	ProcessDied bool                   `json:"process_died,omitempty"`
	Stderr      string                 `json:"stderr_tail,omitempty"`
}

func tapeLen(m map[string][]uint64) int {
	n := 0
	for _, v := range m {
		n += len(v)
	}
	return n
}

func sameClass(vs []Violation, prop, rule string) *Violation {
	for i := range vs {
		if vs[i].Property == prop && vs[i].Rule == rule {
			return &vs[i]
		}
	}
	return nil
}

// minimise shrinks the recorded tape while the same (property, rule) fires.
// minimiseTick is called before every candidate run (worker heartbeat).
var minimiseTick = func() {}

func minimise(t *testing.T, spec CaseSpec, rec map[string][]uint64, prop, rule string, budget time.Duration, maxTries int) (CaseSpec, *CaseResult) {
	deadline := time.Now().Add(budget)
	cur := map[string][]uint64{}
	for k, v := range rec {
		cur[k] = append([]uint64(nil), v...)
	}
	var best *CaseResult
	tries := 0
	try := func(cand map[string][]uint64) bool {
		if tries >= maxTries || time.Now().After(deadline) {
			return false
		}
		tries++
		minimiseTick()
		s := spec
		s.Streams = cand
		res := RunCase(t, s)
		if res.Harness != "" {
			return false
		}
		if sameClass(res.Violations, prop, rule) != nil {
			// adopt what was actually consumed (drops unused tail)
			used := res.Tape.Record()
			for k := range cand {
				if u, ok := used[k]; ok && len(u) <= len(cand[k]) {
					cand[k] = u
				}
			}
			best = res
			return true
		}
		return false
	}
	clone := func() map[string][]uint64 {
		c := map[string][]uint64{}
		for k, v := range cur {
			c[k] = append([]uint64(nil), v...)
		}
		return c
	}
	names := make([]string, 0, len(cur))
	for k := range cur {
		names = append(names, k)
	}
	sort.Strings(names)
	improved := true
	for round := 0; round < 4 && improved; round++ {
		improved = false
		for _, name := range names {
			// 1. truncate
			for cut := len(cur[name]) / 2; cut >= 1; cut /= 2 {
				if len(cur[name]) <= cut {
					continue
				}
				c := clone()
				c[name] = c[name][:len(c[name])-cut]
				if try(c) {
					cur = c
					improved = true
				}
			}
			// 2. delete blocks
			for _, bs := range []int{16, 8, 4, 2, 1} {
				for i := 0; i+bs <= len(cur[name]); {
					c := clone()
					c[name] = append(c[name][:i:i], c[name][i+bs:]...)
					if try(c) {
						cur = c
						improved = true
					} else {
						i += bs
					}
					if tries >= maxTries || time.Now().After(deadline) {
						break
					}
				}
			}
			// 3. zero / halve values
			for i := 0; i < len(cur[name]); i++ {
				if cur[name][i] == 0 {
					continue
				}
				c := clone()
				c[name][i] = 0
				if try(c) {
					cur = c
					improved = true
					continue
				}
				if cur[name][i] > 1 {
					c = clone()
					c[name][i] = cur[name][i] / 2
					if try(c) {
						cur = c
						improved = true
					}
				}
			}
		}
	}
	out := spec
	out.Streams = cur
	return out, best
}

func traceHash(res *CaseResult) string {
	s := ""
	for _, r := range res.Runs {
		s += scheduleSignature(r)
		for _, a := range r.Results {
			s += fmt.Sprintf("#%s#%v", errText(a.StreamErr), len(a.ErrorResults))
			if a.StreamErr == nil {
				// after a failed Stream the value of Error() is unconstrained and, because
				// of the driver's Close-vs-reader race (known finding), may be either the
				// cancellation or a transport error: not part of the canonical trace
				for _, e := range a.ErrorResults {
					s += errText(e)
				}
			}
			if a.Master != nil {
				for _, d := range a.Master.Dumps {
					s += d.String()
				}
			}
			for _, c := range a.Calls {
				if c.Snap != nil {
					s += c.Snap.Next.String()
				}
			}
		}
	}
	return fmt.Sprintf("%016x", hashStrings(s))
}

func observedLines(res *CaseResult) []string {
	var out []string
	for ri, r := range res.Runs {
		for ai, a := range r.Results {
			line := fmt.Sprintf("run %d attempt %d: causes=%v Stream()=%s Error()=", ri, ai, a.Causes, errText(a.StreamErr))
			for _, e := range a.ErrorResults {
				line += "[" + errText(e) + "]"
			}
			if a.ErrorBlocked {
				line += "[BLOCKED]"
			}
			if a.Master != nil {
				for _, d := range a.Master.Dumps {
					line += " " + d.String()
				}
			}
			line += fmt.Sprintf(" deliveries=%d", len(a.Calls))
			for _, c := range a.Calls {
				if c.Snap != nil {
					v := "ok"
					if c.Verdict != nil {
						v = "refused"
					}
					line += fmt.Sprintf(" {%v->%v %d changes %s}", c.Snap.Now, c.Snap.Next, len(c.Snap.Events), v)
				}
			}
			if len(a.LeakAfterRet) > 0 {
				line += " goroutines-after-return=" + leakText(a.LeakAfterRet)
			}
			out = append(out, line)
		}
	}
	return out
}

func historyLines(h *History) []string {
	var out []string
	for _, f := range h.Files {
		for _, e := range f.Events {
			d := e.Desc
			if len(d) > 80 {
				d = d[:80]
			}
			out = append(out, fmt.Sprintf("%s:%d-%d unit=%d %s", f.Name, e.Offset, e.End, e.Unit, d))
			if len(out) > 300 {
				return append(out, "...")
			}
		}
	}
	return out
}

func writeReplay(dir string, v Violation, spec CaseSpec, res *CaseResult, minimised bool, origLen int) (string, error) {
	rf := ReplayFile{Property: v.Property, Rule: v.Rule, Detail: v.Detail, Attempt: v.Attempt, Spec: spec,
		Minimised: minimised, TapeLen: tapeLen(spec.Streams), OrigLen: origLen}
	if res != nil {
		rf.Scenario = describeScenario(res.Scenario)
		rf.Events = historyLines(res.Scenario.Hist)
		for _, r := range res.Runs {
			rf.Trace = append(rf.Trace, r.Trace...)
		}
		if len(rf.Trace) > 400 {
			rf.Trace = append(rf.Trace[:400], "...")
		}
		rf.Observed = observedLines(res)
		rf.TraceHash = traceHash(res)
	}
	b, err := json.MarshalIndent(rf, "", " ")
	if err != nil {
		return "", err
	}
	os.MkdirAll(dir, 0o755)
	name := fmt.Sprintf("%s-%s-%d-%016x.json", v.Property, sanitize(v.Rule), spec.Seed, hashStrings(string(b)))
	path := filepath.Join(dir, name)
	return path, os.WriteFile(path, b, 0o644)
}

func sanitize(s string) string {
	b := []byte(s)
	for i := range b {
		c := b[i]
		if !(c >= 'a' && c <= 'z' || c >= 'A' && c <= 'Z' || c >= '0' && c <= '9' || c == '-') {
			b[i] = '_'
		}
	}
	if len(b) > 40 {
		b = b[:40]
	}
	return string(b)
}
