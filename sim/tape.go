package verifsim

// The choice tape: the only source of randomness in a simulated run.
//
// A Tape is a set of named streams. In search mode every stream is fed by its
// own SplitMix64 generator derived from (seed, stream name); every value that
// is drawn is recorded, so a finished run *is* its tape. In replay mode values
// come from the recorded lists (0 once a list is exhausted), which makes a run
// a pure function of the tape and the code, and lets the minimiser delete and
// lower values. Generators are written so that smaller values mean simpler
// choices.

import (
	"hash/fnv"
	"sort"
)

type splitmix struct{ s uint64 }

func (r *splitmix) next() uint64 {
	r.s += 0x9e3779b97f4a7c15
	z := r.s
	z = (z ^ (z >> 30)) * 0xbf58476d1ce4e5b9
	z = (z ^ (z >> 27)) * 0x94d049bb133111eb
	return z ^ (z >> 31)
}

func mix64(a, b uint64) uint64 {
	r := splitmix{s: a ^ (b * 0x9e3779b97f4a7c15)}
	r.next()
	return r.next()
}

// Stream is one named sequence of choices.
type Stream struct {
	name   string
	vals   []uint64
	pos    int
	rng    splitmix
	replay bool
	prefix []uint64 // record mode: forced values for the first draws (enumeration)
}

// Tape is the collection of streams of one run.
type Tape struct {
	replicaID  uint32
	replicaSet bool
	Seed       uint64
	streams    map[string]*Stream
	replay     bool
}

// NewTape creates a recording tape for a seed.
func NewTape(seed uint64) *Tape {
	return &Tape{Seed: seed, streams: map[string]*Stream{}}
}

// NewTapeWithPrefix creates a recording tape whose streams start with forced
// values; the enumeration tiers use it to pin fault kind, place and pacing.
func NewTapeWithPrefix(seed uint64, prefix map[string][]uint64) *Tape {
	t := NewTape(seed)
	for k, v := range prefix {
		t.S(k).prefix = append([]uint64(nil), v...)
	}
	return t
}

// ReplayTape creates a tape that replays recorded streams.
func ReplayTape(seed uint64, rec map[string][]uint64) *Tape {
	t := &Tape{Seed: seed, streams: map[string]*Stream{}, replay: true}
	for k, v := range rec {
		t.streams[k] = &Stream{name: k, vals: append([]uint64(nil), v...), replay: true}
	}
	return t
}

// S returns the stream with the given name.
func (t *Tape) S(name string) *Stream {
	if s, ok := t.streams[name]; ok {
		return s
	}
	h := fnv.New64a()
	h.Write([]byte(name))
	s := &Stream{name: name, replay: t.replay}
	s.rng.s = mix64(t.Seed, h.Sum64())
	t.streams[name] = s
	return s
}

// Record returns the values consumed so far, per stream (unused tail of a
// replayed stream is dropped, which is itself a simplification).
func (t *Tape) Record() map[string][]uint64 {
	out := map[string][]uint64{}
	names := make([]string, 0, len(t.streams))
	for k := range t.streams {
		names = append(names, k)
	}
	sort.Strings(names)
	for _, k := range names {
		s := t.streams[k]
		n := s.pos
		if n > len(s.vals) {
			n = len(s.vals)
		}
		out[k] = append([]uint64(nil), s.vals[:n]...)
	}
	return out
}

func (s *Stream) raw() uint64 {
	if s.replay {
		if s.pos < len(s.vals) {
			v := s.vals[s.pos]
			s.pos++
			return v
		}
		s.pos++
		return 0
	}
	v := s.rng.next()
	return v
}

// N returns a value in [0,n). n <= 1 consumes nothing.
func (s *Stream) N(n int) int {
	if n <= 1 {
		return 0
	}
	if s.replay {
		return int(s.raw() % uint64(n))
	}
	v := s.rng.next() % uint64(n)
	if s.pos < len(s.prefix) {
		v = s.prefix[s.pos] % uint64(n)
	}
	s.vals = append(s.vals, v)
	s.pos++
	return int(v)
}

// U64 returns 64 raw bits.
func (s *Stream) U64() uint64 {
	if s.replay {
		return s.raw()
	}
	v := s.rng.next()
	if s.pos < len(s.prefix) {
		v = s.prefix[s.pos]
	}
	s.vals = append(s.vals, v)
	s.pos++
	return v
}

// Chance is true with probability num/den; "true" is the recorded value 1 only
// when it happens, so lowering the tape removes rare events.
func (s *Stream) Chance(num, den int) bool {
	if num <= 0 {
		return false
	}
	if num >= den {
		return true
	}
	if s.replay {
		return s.raw()%2 == 1
	}
	hit := s.rng.next()%uint64(den) < uint64(num)
	if s.pos < len(s.prefix) {
		hit = s.prefix[s.pos]%2 == 1
	}
	v := uint64(0)
	if hit {
		v = 1
	}
	s.vals = append(s.vals, v)
	s.pos++
	return hit
}

// Weighted picks an index with the given integer weights; index 0 should be
// the simplest alternative.
func (s *Stream) Weighted(w ...int) int {
	total := 0
	for _, x := range w {
		total += x
	}
	if total <= 0 {
		return 0
	}
	if s.replay {
		v := int(s.raw() % uint64(len(w)))
		if w[v] == 0 {
			for i, x := range w {
				if x > 0 {
					return i
				}
			}
		}
		return v
	}
	r := int(s.rng.next() % uint64(total))
	idx := 0
	for i, x := range w {
		if r < x {
			idx = i
			break
		}
		r -= x
	}
	if s.pos < len(s.prefix) {
		idx = int(s.prefix[s.pos] % uint64(len(w)))
	}
	s.vals = append(s.vals, uint64(idx))
	s.pos++
	return idx
}

// Range returns a value in [lo,hi].
func (s *Stream) Range(lo, hi int) int {
	if hi <= lo {
		return lo
	}
	return lo + s.N(hi-lo+1)
}

// Bytes returns n pseudo-random bytes (each recorded byte-wise would bloat the
// tape; one 64-bit value seeds a local generator instead).
func (s *Stream) Bytes(n int) []byte {
	if n == 0 {
		return []byte{}
	}
	r := splitmix{s: s.U64()}
	out := make([]byte, n)
	for i := 0; i < n; i += 8 {
		v := r.next()
		for j := 0; j < 8 && i+j < n; j++ {
			out[i+j] = byte(v >> (8 * uint(j)))
		}
	}
	return out
}
