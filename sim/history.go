package verifsim

// Generated binlog histories (logical units -> exact events with offsets) and
// the reference model M(H, P): what a replica that starts at P must deliver.

import (
	"bytes"
	"fmt"
	"strings"
)

// Pos is a binlog coordinate (own type; compared with gobinlog.Position field by field).
type Pos struct {
	File string
	Off  int64
}

func (p Pos) String() string { return fmt.Sprintf("%s:%d", p.File, p.Off) }

// Statement kinds as gobinlog numbers them (public enum of the library's API).
const (
	stUnknown  = 0
	stBegin    = 1
	stCommit   = 2
	stRollback = 3
	stInsert   = 4
	stUpdate   = 5
	stDelete   = 6
	stCreate   = 7
	stAlter    = 8
	stDrop     = 9
	stTruncate = 10
	stRename   = 11
	stSet      = 12
)

// TableDef is a table of the simulated master.
type TableDef struct {
	ID   uint64
	DB   string
	Name string
	// Alias, when set: the table mapper answers for this table under this name
	// (same schema) instead of the name it was asked for - a mapper that folds
	// shards or partitions into one logical table. Delivered events carry it.
	Alias string
	Cols  []ColDef
	// Optional metadata appended to every table map of this table (8.0 style).
	OptMeta []byte
	Flags   uint16
}

// shownName is the table name delivered events carry: what the mapper answered.
func (t *TableDef) shownName() string {
	if t.Alias != "" {
		return t.Alias
	}
	return t.Name
}

// ExpCol is the expectation for one column of one row image.
type ExpCol struct {
	Name   string
	Type   byte
	Absent bool
	Null   bool
	Val    *Val
}

// ExpEvent is one expected change of a delivered transaction.
type ExpEvent struct {
	StType     int
	IsQuery    bool
	DB, Table  string // rows events: the table
	Timestamp  int64
	QDB, SQL   string
	Charset    *[3]int32
	Values     [][]ExpCol
	Identifies [][]ExpCol
	Marker     string // unique id of the logical change
	Optional   bool   // a replica may deliver this change or leave it out (see txBody)
}

// ExpTx is one expected delivery.
type ExpTx struct {
	Unit      int
	Now       Pos // filled by the model for a concrete start position
	Next      Pos
	Timestamp int64
	Events    []ExpEvent
	Commit    *Event // event whose last byte completes the commit
}

type unitKind int

const (
	uTxXID unitKind = iota
	uTxCommit
	uDDL
	uAutoRows
	uStmtDML
	uTxRollback
	uUnknownStmt
	uIgnorable
	uRotate
	numUnitKinds
)

var unitKindNames = []string{"tx-xid", "tx-commit", "ddl", "auto-rows", "stmt-dml", "tx-rollback", "unknown-stmt", "ignorable", "rotate"}

// Unit is one logical unit of the history.
type Unit struct {
	Kind   unitKind
	File   int
	Start  uint32
	End    uint32
	Events []*Event
	Tx     *ExpTx
	Desc   string
	// NewFile is set for uRotate: index of the file that follows.
	NewFile int
	// Poison: the unit re-announces a cached table id with a different column
	// count. The mapper table fetched for that id no longer agrees with the table
	// map, so the stream must end with an error here (C15) - nothing of this unit
	// or after it may be delivered.
	Poison bool
}

// BinFile is one binlog file.
type BinFile struct {
	Name     string
	Head     []*Event // FDE (+ PREVIOUS_GTIDS)
	Events   []*Event // all events in order, Head included, rotate included
	Checksum bool     // events of this file carry CRC32 (binlog_checksum may change at a rotation)
	Size     uint32
	Gap      uint32 // >0: offsets in (end of head, Gap) are an unmaterialised sparse region (file 0 only)
}

// HistCfg is the configuration of a history.
type HistCfg struct {
	Checksum   bool
	RowsV2     bool
	TableID4   bool
	GTIDMode   int // 0 none, 1 GTID, 2 anonymous
	Format     formatParams
	MasterID   uint32
	BigOffsets bool
	CarryMaps  bool // a statement may leave out a table map that would repeat, byte for byte, the latest one sent for that id
}

// History is a complete generated multi-file binlog.
type History struct {
	jumbo          bool
	retired        []*TableDef // tables whose id was taken over by another table (the mapper still knows them)
	wildTS         bool
	lastXid        uint64
	Cfg            HistCfg
	Files          []*BinFile
	Units          []*Unit
	Tables         []*TableDef
	nextTS         uint32
	marker         int
	overflow       bool
	carried        int // CarryMaps: table maps left out
	replicaID      uint32
	byID           map[uint64]*TableDef
	sessionCharset *[3]int32
	exactTable     *TableDef
}

// GenOpts tunes the history generator per property.
type GenOpts struct {
	MaxUnits     int
	MinUnits     int
	UnitWeights  [numUnitKinds]int
	MaxFiles     int
	MaxStmts     int
	MaxRows      int
	MaxCols      int
	MaxTables    int
	WideTables   bool
	WideChance   int // 1/n of the tables are wide (0: 25)
	Prof         genProfile
	IgnorableGap int // 1/n chance of ignorable events in each gap (0 = never)
	CaseMix      bool
	ForceCfg     *HistCfg
	BigOffsets   bool
	CarryMaps    bool   // C15: see HistCfg.CarryMaps (one history in five)
	TableIDReuse bool   // several ids, re-announcements, type changes
	AliasMapper  bool   // some histories: the mapper answers some tables under another name
	OddNames     bool   // unusual binlog file names
	CountChange  bool   // C15: a cached table id is re-announced with another column count
	Bulk         int    // one history in Bulk holds a transaction of >1024 / >4096 statements (0 = never)
	HeaderFlags  bool   // harmless event-header flag bits on ordinary events
	LongIdle     int    // C17: one history in LongIdle gets thousands of tiny ignorable events in front (round packet ordinals)
	PoisonJSON   bool   // C06: a JSON value the decoder must reject (decode failure ends the stream with an error)
	Rare         bool   // enable the rare-coincidence modes (long histories, exact packet sizes, many rows, extreme timestamps)
	ReplicaID    uint32 // the replica's own server id (events may legitimately carry it: circular topologies)
	HaveReplica  bool
	Jumbo        bool // one value large enough to split the event over several MySQL packets
}

func (h *History) ts(s *Stream) uint32 {
	h.nextTS += uint32(s.N(3))
	if h.wildTS && s.Chance(1, 10) {
		// a session that runs under SET TIMESTAMP (back-filling, replaying old logs):
		// any second of the 32-bit range, unrelated to its neighbours
		return uint32(s.U64())
	}
	return h.nextTS
}

func (h *History) newMarker() string {
	h.marker++
	return fmt.Sprintf("m%d", h.marker)
}

func mixCase(s *Stream, word string, mix bool) string {
	if !mix {
		return word
	}
	switch s.Weighted(3, 2, 2) {
	case 0:
		return word
	case 1:
		return strings.ToLower(word)
	default:
		b := []byte(word)
		r := s.U64()
		for i := range b {
			if r&(1<<uint(i%64)) != 0 {
				b[i] = strings.ToLower(string(b[i]))[0]
			} else {
				b[i] = strings.ToUpper(string(b[i]))[0]
			}
		}
		return string(b)
	}
}

func genHistCfg(s *Stream, o *GenOpts) HistCfg {
	if o.ForceCfg != nil {
		return *o.ForceCfg
	}
	c := HistCfg{}
	c.Checksum = s.Chance(1, 2)
	c.RowsV2 = !s.Chance(1, 3)
	if !c.RowsV2 {
		c.TableID4 = s.Chance(1, 3)
	}
	c.GTIDMode = s.Weighted(2, 2, 1)
	switch s.Weighted(2, 2, 1) {
	case 0:
		c.Format = formatParams{ServerVersion: "5.6.51-log", NumTypes: 35}
	case 1:
		c.Format = formatParams{ServerVersion: "5.7.44-log", NumTypes: 38}
	case 2:
		c.Format = formatParams{ServerVersion: "8.0.36", NumTypes: 41}
	}
	if !c.RowsV2 && s.Chance(1, 2) {
		c.Format = formatParams{ServerVersion: "5.5.62-simlog", NumTypes: 35}
	}
	c.Format.Checksum = c.Checksum
	c.Format.TableID4 = c.TableID4
	c.Format.PadBits = s.Weighted(3, 3, 2, 1)
	c.MasterID = []uint32{1, 2, 100, 1<<31 - 1, 1 << 31, 1<<32 - 1}[s.N(6)]
	c.BigOffsets = o.BigOffsets && s.Chance(1, 4)
	c.CarryMaps = o.CarryMaps && s.Chance(1, 5)
	return c
}

func genTable(s *Stream, idx int, o *GenOpts) *TableDef {
	t := &TableDef{}
	t.DB = []string{"db", "shop", "test_db", "d"}[s.N(4)]
	t.Name = fmt.Sprintf("t%d", idx)
	if s.Chance(1, 10) {
		t.Name = fmt.Sprintf("t%d_%s", idx, strings.Repeat("n", s.N(60)))
	}
	if s.Chance(1, 40) {
		t.DB = strings.Repeat("D", 64)
	}
	if s.Chance(1, 10) {
		t.DB = []string{"mysql", "sys", "performance_schema", "information_schema"}[s.Weighted(5, 1, 1, 1)]
	}
	if s.Chance(1, 12) {
		// name lengths at the ends of the one-byte range (and where a length-encoded
		// integer would switch to its multi-byte forms)
		n := []int{1, 250, 251, 252, 253, 254, 255}[s.N(7)]
		name := fmt.Sprintf("%d", idx)
		useName := s.Chance(1, 2)
		if len(name) <= n { // (a one-byte name can tell ten tables apart, not more)
			name += strings.Repeat("x", n-len(name))
			if useName {
				t.Name = name
			} else {
				t.DB = name
			}
		}
	}
	ncols := 1 + s.N(o.MaxCols)
	wc := 25
	if o.WideChance > 0 {
		wc = o.WideChance
	}
	if o.WideTables && s.Chance(1, wc) {
		ncols = 250 + s.N(351)
		if s.Chance(1, 3) || (o.WideChance > 0 && s.Chance(3, 4)) {
			ncols = 66 + s.N(80) // (a frequent-wide family keeps most of them just beyond 64 columns)
		}
	}
	prof := o.Prof
	tailRef := -1
	if ncols > 65 {
		prof.Kinds = []colKind{kTiny, kShort, kLong, kYear, kDate, kVarchar, kEnum}
		prof.BigChance = 0 // (hundreds of columns with kilobyte cells each: megabytes per row)
		if s.Chance(1, 2) {
			// numbers and dates in front, the by-reference columns all behind the
			// 64th column
			tailRef = 64 + s.N(ncols-65)
		}
	}
	for i := 0; i < ncols; i++ {
		if tailRef >= 0 {
			prof.Kinds = []colKind{kTiny, kShort, kLong, kYear, kDate, kEnum}
			if i >= tailRef {
				prof.Kinds = []colKind{kVarchar, kVarchar, kLong}
			}
		}
		t.Cols = append(t.Cols, genColDef(s, i, &prof))
	}
	if o.Prof.AllowJSON && s.Chance(1, 4) {
		c := ColDef{Kind: kJSON, Name: fmt.Sprintf("c%d_json", ncols), TypeCode: tJSON, Meta: []byte{4}, P1: 4, Nullable: true}
		t.Cols = append(t.Cols, c)
	}
	t.Flags = uint16(s.N(2))
	if s.Chance(1, 12) {
		t.Flags = uint16(s.N(1 << 16))
	}
	if s.Chance(1, 3) {
		// 8.0-style optional metadata: TLV fields
		n := 1 + s.N(3)
		for i := 0; i < n; i++ {
			l := s.N(20)
			t.OptMeta = append(t.OptMeta, byte(1+s.N(10)))
			t.OptMeta = lenenc(t.OptMeta, uint64(l))
			t.OptMeta = append(t.OptMeta, s.Bytes(l)...)
		}
	}
	return t
}

// oddIdentifiers: MySQL identifiers may hold any character but NUL - back-ticks,
// dots, quotes, blanks, multi-byte text. One history in five renames some of its
// schemas and tables that way; one in twelve (with two tables or more) makes the
// first two tables a pair whose back-tick-quoted full names read the same
// (`a`.`b`.`c` either way) although schema and table differ.
func oddIdentifiers(s *Stream, tabs []*TableDef) {
	odd := []string{"`", ".", " ", "'", "\"", "\\", "-", "$", "é", "表", "`.`", "``", "%", "/", "\n"}
	mk := func(base string) string {
		n := 1 + s.N(3)
		out := base
		for i := 0; i < n; i++ {
			o := odd[s.N(len(odd))]
			switch s.N(3) {
			case 0:
				out = o + out
			case 1:
				out = out + o
			default:
				k := s.N(len(out) + 1)
				out = out[:k] + o + out[k:]
			}
		}
		return out
	}
	if s.Chance(1, 5) {
		for i, t := range tabs {
			if s.Chance(1, 2) && len(t.Name) < 40 {
				t.Name = mk(fmt.Sprintf("t%d", i))
			}
			if s.Chance(1, 3) && len(t.DB) < 40 {
				t.DB = mk(t.DB)
			}
		}
	}
	if len(tabs) >= 2 && s.Chance(1, 12) {
		// two names of the same length (65..200 bytes) that agree in their first 64
		// bytes and in everything but one late byte (sharded / generated names)
		n := 65 + s.N(136)
		base := []byte(strings.Repeat("shard_of_a_very_long_generated_table_name_", 6))[:n]
		a, b2 := append([]byte(nil), base...), append([]byte(nil), base...)
		k := 64 + s.N(n-64)
		a[k], b2[k] = '1', '2'
		if s.Chance(1, 2) || len(tabs[0].Name) > 200 {
			tabs[0].Name, tabs[1].Name = string(a), string(b2)
			tabs[1].DB = tabs[0].DB
		} else {
			tabs[0].DB, tabs[1].DB = string(a), string(b2)
			tabs[1].Name = tabs[0].Name + "_" // (<= 201 bytes: the length is one byte on the wire)
		}
	} else if len(tabs) >= 2 && s.Chance(1, 12) {
		parts := []string{"shop", "eu", "orders", "a", "b", "c", "x y", "d.e"}
		a, b2, c := parts[s.N(len(parts))], parts[s.N(len(parts))], parts[s.N(len(parts))]
		tabs[0].DB, tabs[0].Name = a+"`.`"+b2, c
		tabs[1].DB, tabs[1].Name = a, b2+"`.`"+c
	}
}

func (t *TableDef) typesAndMeta() (types, meta []byte, nullable []bool) {
	for i := range t.Cols {
		types = append(types, t.Cols[i].TypeCode)
		meta = append(meta, t.Cols[i].Meta...)
		nullable = append(nullable, t.Cols[i].Nullable)
	}
	return
}

// builder lays events out in files.
type builder struct {
	h           *History
	s           *Stream
	o           *GenOpts
	file        int
	off         uint32
	unit        int
	forceRows   bool              // every rows event carries at least one row
	unitSID     uint32            // server id stamped on the events of the current unit (0 = the master's)
	nameBase    int               // first binlog index of this master minus one
	bulk        int               // the next transaction holds this many single-row statements
	filler      int               // the next ignorable unit is a run of this many tiny events
	forceNextTx bool              // the previous file ended with a torn transaction: the next unit must open with BEGIN
	lastMap     map[uint64][]byte // CarryMaps: body of the latest table map sent for each table id
}

func swapCase(x string) string {
	b := []byte(x)
	for i, c := range b {
		switch {
		case c >= 'a' && c <= 'z':
			b[i] = c - 32
		case c >= 'A' && c <= 'Z':
			b[i] = c + 32
		}
	}
	return string(b)
}

// nextXid: xids are unique within one run of a master only; a restarted master
// counts from the same start again, so consecutive transactions (in different
// files, or here anywhere) may carry the same value, and 0 is a value like any other.
func (b *builder) nextXid() uint64 {
	switch b.s.Weighted(6, 2, 1, 1) {
	case 1:
		return b.h.lastXid
	case 2:
		return 0
	case 3:
		b.h.lastXid++
		return b.h.lastXid
	}
	b.h.lastXid = b.s.U64()
	return b.h.lastXid
}

func (b *builder) curFile() *BinFile { return b.h.Files[b.file] }

func (b *builder) add(typ byte, ts uint32, flags uint16, body []byte, desc string) *Event {
	cfg := &b.h.Cfg
	if typ != evFormatDesc && typ != evRotate && b.unit >= 0 && b.o.HeaderFlags && b.s.Chance(1, 10) {
		// header flags that say something about the writer, nothing about how to read
		// the event: binlog-in-use, thread-specific, suppress-use, relay-log, no-filter,
		// mts-isolate (the artificial and ignorable bits stay where the server puts them)
		flags |= []uint16{0x1, 0x4, 0x8, 0x10, 0x40, 0x100, 0x200, 0x4 | 0x8, 0x1 | 0x100 | 0x200}[b.s.N(9)]
	}
	withCk := b.curFile().Checksum
	if typ == evFormatDesc {
		withCk = true
	}
	sz := uint32(binlogHeaderSize + len(body))
	if withCk {
		sz += 4
	}
	sid := cfg.MasterID
	if b.unitSID != 0 && b.unit >= 0 && typ != evFormatDesc && typ != evRotate {
		sid = b.unitSID
	}
	ev := &Event{Type: typ, Timestamp: ts, ServerID: sid, Flags: flags, Body: body,
		File: b.file, Offset: b.off, End: b.off + sz, Desc: desc, Unit: b.unit}
	if uint64(b.off)+uint64(sz) > 1<<32-1 {
		b.h.overflow = true // offsets are 32 bit: this history cannot exist
	}
	ev.Raw = encodeEvent(ts, typ, sid, ev.End, flags, body, withCk)
	if typ == evTableMap && cfg.CarryMaps {
		if id, _, ok := tableMapHead(b.h, ev); ok {
			if b.lastMap == nil {
				b.lastMap = map[uint64][]byte{}
			}
			b.lastMap[id] = body
		} else {
			b.lastMap = nil // a table map the harness cannot attribute: nothing is left out after it
		}
	}
	b.off = ev.End
	f := b.curFile()
	f.Events = append(f.Events, ev)
	f.Size = b.off
	return ev
}

func fileName(i int, s *Stream) string {
	return fmt.Sprintf("mysql-bin.%06d", i+1)
}

// oddFileName: binlog base names are free-form on the master (log_bin=<anything>):
// long names, spaces, non-ASCII and arbitrary bytes other than NUL.
func oddFileName(i int, s *Stream) string {
	suffix := fmt.Sprintf(".%06d", i+1)
	switch s.Weighted(1, 1, 1, 1, 1, 1) {
	case 0:
		return "mysql-bin" + suffix
	case 1:
		return fmt.Sprintf("%c", 'a'+rune(i%26)) // one byte, unique per file
	case 2:
		return strings.Repeat("x", 255-len(suffix)) + suffix // 255 bytes
	case 3:
		return "bin log with spaces" + suffix
	case 4:
		return "b\xc3\xa4r-\xe6\x97\xa5\xe5\xbf\x97" + suffix
	default:
		b := s.Bytes(1 + s.N(40))
		for k := range b {
			if b[k] == 0 {
				b[k] = 0xff
			}
		}
		return string(b) + suffix
	}
}

func (b *builder) nextFileName() string {
	i := len(b.h.Files)
	if i == 0 {
		// numbering scheme of this master: ordinary, or about to outgrow six
		// digits (mysql-bin.999999 is followed by mysql-bin.1000000, which sorts lower)
		b.nameBase = 0
		if b.o.Rare && b.s.Chance(1, 12) || b.o.OddNames && b.s.Chance(1, 6) {
			b.nameBase = 999998 - b.s.N(2)
		}
	}
	odd := b.o.OddNames && b.s.Chance(5, 8) || !b.o.OddNames && b.o.Rare && b.s.Chance(1, 16)
	if odd && b.nameBase == 0 {
		return oddFileName(i, b.s)
	}
	return fmt.Sprintf("mysql-bin.%06d", b.nameBase+i+1)
}

func (b *builder) startFile(name string, gap uint32) {
	f := &BinFile{Name: name, Checksum: b.h.Cfg.Checksum}
	if n := len(b.h.Files); n > 0 {
		// SET GLOBAL binlog_checksum rotates the log: the next file may use the other setting
		f.Checksum = b.h.Files[n-1].Checksum
		if b.o.Rare && b.s.Chance(1, 6) {
			f.Checksum = !f.Checksum
		}
	}
	b.h.Files = append(b.h.Files, f)
	b.file = len(b.h.Files) - 1
	b.off = 4
	saved := b.unit
	b.unit = -1
	fp := b.h.Cfg.Format
	fp.Checksum = f.Checksum
	fde := b.add(evFormatDesc, b.h.ts(b.s), 0, fdeBody(fp, b.h.nextTS), "FORMAT_DESCRIPTION")
	f.Head = append(f.Head, fde)
	if b.h.Cfg.GTIDMode != 0 {
		body := le64(nil, 0)
		if b.s.Chance(1, 2) {
			// one SID with one interval
			body = le64(nil, 1)
			body = append(body, b.s.Bytes(16)...)
			body = le64(body, 1)
			body = le64(body, 1)
			body = le64(body, uint64(2+b.s.N(1000)))
		}
		pg := b.add(evPreviousGTIDs, b.h.nextTS, 0x80, body, "PREVIOUS_GTIDS")
		f.Head = append(f.Head, pg)
	}
	if gap > 0 {
		// an old, large file: everything between the head and gap exists on the
		// master but is never requested (start positions are >= gap)
		f.Gap = gap
		b.off = gap
		f.Size = gap
	}
	b.unit = saved
}

// gtidEvent adds the GTID event that precedes a transaction / DDL.
func (b *builder) gtidEvent(ts uint32) *Event {
	switch b.h.Cfg.GTIDMode {
	case 1, 2:
		typ := byte(evGTID)
		desc := "GTID"
		if b.h.Cfg.GTIDMode == 2 {
			typ = evAnonymousGTID
			desc = "ANONYMOUS_GTID"
		}
		body := []byte{byte(b.s.N(2))}
		body = append(body, b.s.Bytes(16)...)
		body = le64(body, uint64(1+b.s.N(100000)))
		if b.h.Cfg.Format.NumTypes >= 38 {
			body = append(body, 2)
			body = le64(body, uint64(b.s.N(1000)))
			body = le64(body, uint64(b.s.N(1000)))
		}
		return b.add(typ, ts, 0, body, desc)
	}
	return nil
}

func (b *builder) statusVars(withCharset *[3]int32) []byte {
	s := b.s
	v := []byte{}
	if s.Chance(3, 4) {
		v = append(v, 0)
		v = le32(v, uint32(s.U64()))
	}
	if s.Chance(3, 4) {
		v = append(v, 1)
		v = le64(v, s.U64())
	}
	if s.Chance(3, 4) {
		v = append(v, 6, 3, 's', 't', 'd')
	}
	if s.Chance(1, 3) {
		v = append(v, 3)
		v = le16(v, uint16(1+s.N(10)))
		v = le16(v, uint16(1+s.N(10)))
	}
	if withCharset != nil {
		v = append(v, 4)
		v = le16(v, uint16(withCharset[0]))
		v = le16(v, uint16(withCharset[1]))
		v = le16(v, uint16(withCharset[2]))
	}
	if s.Chance(1, 3) {
		tz := "SYSTEM"
		if s.Chance(1, 8) {
			tz = strings.Repeat("Z", 1+s.N(255))
		}
		v = append(v, 5, byte(len(tz)))
		v = append(v, tz...)
	}
	if s.Chance(1, 4) {
		v = append(v, 7)
		v = le16(v, uint16(s.N(100)))
	}
	if s.Chance(1, 4) {
		v = append(v, 8)
		v = le16(v, uint16(s.N(250)))
	}
	if s.Chance(1, 6) {
		v = append(v, 9)
		v = le64(v, s.U64())
	}
	if s.Chance(1, 12) {
		// Q_INVOKER: user and host, each with a one-byte length
		u, hst := strings.Repeat("u", s.N(33)), strings.Repeat("h", s.N(256))
		v = append(v, 11, byte(len(u)))
		v = append(v, u...)
		v = append(v, byte(len(hst)))
		v = append(v, hst...)
	}
	if s.Chance(1, 12) {
		// Q_UPDATED_DB_NAMES: count, then NUL-terminated names (a cross-schema statement)
		n := 1 + s.N(10)
		v = append(v, 12, byte(n))
		for i := 0; i < n; i++ {
			v = append(v, strings.Repeat("d", 1+s.N(64))...)
			v = append(v, 0)
		}
	}
	if s.Chance(1, 12) {
		v = append(v, 13)
		v = leN(v, uint64(s.N(1000000)), 3)
	}
	return v
}

// queryEvent adds a QUERY_EVENT and returns it with the expected Query fields.
func (b *builder) queryEvent(ts uint32, db, sql string) (*Event, *[3]int32) {
	// a real binlog carries the same session charset triple on nearly every
	// query event; now and then a session uses another one or none is logged
	var cs *[3]int32
	if b.h.sessionCharset == nil {
		b.h.sessionCharset = &[3]int32{int32(b.s.N(300)), int32(b.s.N(300)), int32(b.s.N(65536))}
	}
	switch b.s.Weighted(6, 2, 1) {
	case 0:
		c := *b.h.sessionCharset
		cs = &c
	case 1:
		cs = &[3]int32{int32(b.s.N(300)), int32(b.s.N(300)), int32(b.s.N(65536))}
	}
	q := queryParams{ThreadID: uint32(b.s.N(1000)), ExecTime: uint32(b.s.N(5)), DB: db, SQL: sql,
		Vars: b.statusVars(cs)}
	if b.s.Chance(1, 20) {
		q.ErrorCode = uint16(b.s.N(2000))
		if b.s.Chance(1, 2) {
			// the codes a master logs for statements that were killed or failed half-way
			q.ErrorCode = []uint16{1053, 1184, 1317, 1927, 1062, 1205, 1213, 3024}[b.s.N(8)]
		}
	}
	ev := b.add(evQuery, ts, uint16(b.s.N(2))*8, queryBody(q), "QUERY "+sql)
	return ev, cs
}

func (b *builder) pickDB() string {
	// (the server's own schemas are ordinary default databases for the statements of a session)
	return []string{"db", "shop", "", "test_db", "db", "shop", "mysql", "sys", "information_schema", "performance_schema"}[b.s.N(10)]
}

// ignorable adds 1..2 events that must never alter grouping.
func (b *builder) ignorable(ts uint32) {
	s := b.s
	if b.filler > 0 {
		// thousands of packets on one connection: "the N-th packet of the dump" for
		// round N (1000, 1024, 4096, 10000) becomes reachable
		for i := 0; i < b.filler; i++ {
			b.add(byte(39+i%50), ts, 0, nil, "UNKNOWN-TYPE (filler)")
		}
		b.filler = 0
		return
	}
	n := 1 + s.N(2)
	for i := 0; i < n; i++ {
		var added *Event
		switch s.Weighted(2, 2, 1, 1, 1, 1, 2) {
		case 0:
			added = b.add(evIgnorable, ts, 0x80, s.Bytes(s.N(12)), "IGNORABLE")
		case 1:
			b.add(evUserVar, ts, 0, append([]byte{1, 0, 0, 0, 'x', 1}, s.Bytes(0)...), "USER_VAR")
		case 2:
			added = b.add(evIncident, ts, 0, append(le16(nil, 1), 0), "INCIDENT")
		case 3:
			added = b.add(byte(evTxContext+s.N(3)), ts, 0, s.Bytes(20+s.N(40)), "TYPE36-38")
		case 4:
			added = b.add(byte(39+s.N(60)), ts, 0, s.Bytes(s.N(30)), "UNKNOWN-TYPE")
		case 5:
			added = b.add(evStop+0, ts, 0, nil, "STOP-like")
		case 6:
			// unknown statement
			sql := []string{"SAVEPOINT sp1", "FLUSH TABLES", "GRANT ALL ON *.* TO u", "ANALYZE TABLE t1", "XA START 'x'", "", "#comment", "REPLACE INTO t VALUES (1)", "CALL p()",
				"SAVEPOINT BEGIN", "CALL COMMIT", "XA ROLLBACK", "-- BEGIN"}[s.N(13)]
			b.queryEvent(ts, b.pickDB(), sql)
		}
		if added != nil && s.Chance(1, 4) {
			// the next_position field of an event nobody decodes is not ours to judge:
			// fabricated events carry 0, files beyond 4 GiB wrap it. Values next to the
			// event's own length are the interesting ones (length-field confusions).
			l := uint32(len(added.Raw))
			np := []uint32{l, l + 1, l + 2, l + 3, l - 1, 0, 1, 4, 1<<32 - 1, uint32(s.U64())}[s.N(10)]
			added.Raw = patchNextPos(added.Raw, np, b.curFile().Checksum)
			added.Desc += fmt.Sprintf(" next_position=%d", np)
		}
	}
}

// rowImage draws one image of a row: which columns are present and their values.
func (b *builder) rowImage(t *TableDef, present []bool) (enc []byte, exp []ExpCol) {
	s := b.s
	nulls := []bool{}
	vals := []byte{}
	for i := range t.Cols {
		c := &t.Cols[i]
		ec := ExpCol{Name: c.Name, Type: c.TypeCode}
		if !present[i] {
			ec.Absent = true
			exp = append(exp, ec)
			continue
		}
		if c.Nullable && s.Chance(1, 4) {
			nulls = append(nulls, true)
			ec.Null = true
			exp = append(exp, ec)
			continue
		}
		nulls = append(nulls, false)
		v := genVal(s, c, &b.o.Prof)
		ec.Val = &v
		vals = append(vals, v.Enc...)
		exp = append(exp, ec)
	}
	enc = append(packBitsPad(nulls, b.h.Cfg.Format.PadBits >= 1), vals...)
	return
}

func (b *builder) presence(t *TableDef, mode int) []bool {
	n := len(t.Cols)
	p := make([]bool, n)
	switch mode {
	case 0: // full
		for i := range p {
			p[i] = true
		}
	case 1: // minimal-like: random non-empty subset
		any := false
		r := b.s.Bytes(n)
		for i := range p {
			p[i] = r[i]%3 == 0
			any = any || p[i]
		}
		if !any {
			p[b.s.N(n)] = true
		}
	case 2: // noblob-like: everything but blobs/text
		any := false
		for i := range p {
			k := t.Cols[i].Kind
			p[i] = !(k == kBlob || k == kBlobAlt || k == kGeometry || k == kJSON)
			any = any || p[i]
		}
		if !any {
			p[0] = true
		}
	}
	return p
}

// rowsEvents adds table maps + rows events for one statement and returns the
// expected changes.
func (b *builder) rowsStatement(ts uint32, tables []*TableDef) []ExpEvent {
	s := b.s
	cfg := &b.h.Cfg
	var exps []ExpEvent
	// all table maps first, as MySQL does
	for _, t := range tables {
		types, meta, nullable := t.typesAndMeta()
		body := tableMapBody(cfg.Format, t.ID, t.Flags, t.DB, t.Name, types, meta, nullable, t.OptMeta)
		if cfg.CarryMaps && b.lastMap != nil && bytes.Equal(b.lastMap[t.ID], body) && s.Chance(1, 2) {
			// legal for a master (the replica keeps the latest table map of an id, across
			// transactions, rolled back ones included): the rows events come without a new one
			b.h.carried++
			continue
		}
		b.add(evTableMap, ts, 0, body, fmt.Sprintf("TABLE_MAP id=%d %s.%s cols=%d", t.ID, t.DB, t.Name, len(t.Cols)))
	}
	midIgnorable := func() {
		// an ignorable / unknown event may sit anywhere, also between a table map
		// and its rows event or between two rows events of one statement
		if b.o.IgnorableGap > 0 && !b.forceRows && s.Chance(1, 12) {
			switch s.N(6) {
			case 3:
				b.add(evGTID, ts, 0, append([]byte{1}, s.Bytes(41)...), "GTID(mid-statement)")
			case 4:
				b.add(evAnonymousGTID, ts, 0, append([]byte{1}, s.Bytes(41)...), "ANONYMOUS_GTID(mid-statement)")
			case 5:
				b.add(evPreviousGTIDs, ts, 0, le64(nil, 0), "PREVIOUS_GTIDS(mid-statement)")
			case 0:
				b.add(evIgnorable, ts, 0x80, s.Bytes(s.N(12)), "IGNORABLE(mid-statement)")
			case 1:
				b.add(byte(39+s.N(60)), ts, 0, s.Bytes(s.N(30)), "UNKNOWN-TYPE(mid-statement)")
			case 2:
				b.add(evUserVar, ts, 0, []byte{1, 0, 0, 0, 'x', 1}, "USER_VAR(mid-statement)")
			}
		}
	}
	for ti, t := range tables {
		nev := 1
		if s.Chance(1, 5) {
			nev = 2
		}
		for e := 0; e < nev; e++ {
			midIgnorable()
			kind := s.N(3) // 0 insert 1 update 2 delete
			nrows := 1 + s.N(b.o.MaxRows)
			if s.Chance(1, 30) && !b.forceRows {
				nrows = 0
			}
			if len(t.Cols) > 100 && nrows > 2 {
				nrows = 2
			}
			imgMode := s.Weighted(3, 2, 1)
			var typ byte
			ee := ExpEvent{DB: t.DB, Table: t.shownName(), Timestamp: int64(ts), Marker: b.h.newMarker()}
			var bitmaps [][]bool
			var before, after []bool
			switch kind {
			case 0:
				typ = evWriteRowsV1
				ee.StType = stInsert
				after = b.presence(t, imgModeForInsert(imgMode))
				bitmaps = [][]bool{after}
			case 1:
				typ = evUpdateRowsV1
				ee.StType = stUpdate
				before = b.presence(t, imgMode)
				after = b.presence(t, imgMode)
				bitmaps = [][]bool{before, after}
			case 2:
				typ = evDeleteRowsV1
				ee.StType = stDelete
				before = b.presence(t, imgMode)
				bitmaps = [][]bool{before}
			}
			if cfg.RowsV2 {
				typ += evWriteRowsV2 - evWriteRowsV1
			}
			var extra []byte
			if cfg.RowsV2 && s.Chance(1, 5) {
				extra = s.Bytes(1 + s.N(20))
			}
			flags := uint16(0)
			if ti == len(tables)-1 && e == nev-1 {
				flags = 1 // STMT_END_F
			}
			if s.Chance(1, 6) {
				// NO_FOREIGN_KEY_CHECKS, RELAXED_UNIQUE_CHECKS, COMPLETE_ROWS: session
				// settings of the writer, logged in the rows flags
				flags |= uint16(s.N(8)) << 1
			}
			body := rowsBodyHeader(cfg.Format, cfg.RowsV2, t.ID, flags, extra, len(t.Cols), bitmaps...)
			for r := 0; r < nrows; r++ {
				if before != nil {
					enc, exp := b.rowImage(t, before)
					body = append(body, enc...)
					ee.Identifies = append(ee.Identifies, exp)
				}
				if after != nil {
					enc, exp := b.rowImage(t, after)
					body = append(body, enc...)
					ee.Values = append(ee.Values, exp)
				}
			}
			b.add(typ, ts, 0, body, fmt.Sprintf("ROWS type=%d table=%d rows=%d", typ, t.ID, nrows))
			exps = append(exps, ee)
		}
	}
	return exps
}

func imgModeForInsert(m int) int {
	// inserts log the full after image except with partial images (minimal logs
	// only the columns given a value) - keep all three shapes
	return m
}

func (b *builder) pickTables() []*TableDef {
	n := 1
	if len(b.h.Tables) > 1 && b.s.Chance(1, 4) {
		n = 2
	}
	out := []*TableDef{}
	seen := map[uint64]bool{}
	for len(out) < n {
		t := b.h.Tables[b.s.N(len(b.h.Tables))]
		if seen[t.ID] {
			n--
			continue
		}
		seen[t.ID] = true
		out = append(out, t)
	}
	return out
}

var dmlSQL = []string{"INSERT INTO t1 VALUES (1)", "UPDATE t1 SET a=2", "DELETE FROM t1 WHERE a=1", "insert into x select * from y", "Update t set z=1", "delete from q",
	"INSERT INTO t SELECT * FROM COMMIT", "DELETE FROM BEGIN", "UPDATE t SET a=1 WHERE b IN (SELECT c FROM ROLLBACK)", "insert into t values ('BEGIN')"}
var ddlSQL = []string{"CREATE TABLE t9 (a int)", "ALTER TABLE t1 ADD c int", "DROP TABLE t9", "TRUNCATE TABLE t1", "RENAME TABLE a TO b", "SET PASSWORD FOR u='x'", "create index i on t(a)", "drop database d2", "CREATE", "truncate t2", "Alter table q engine=innodb",
	"RENAME TABLE a TO BEGIN", "CREATE PROCEDURE p() COMMIT", "ALTER TABLE t RENAME TO ROLLBACK", "DROP TABLE begin", "CREATE TABLE COMMIT (a int) COMMENT='BEGIN'"}

func stmtTypeOf(sql string) int {
	w := sql
	if i := strings.IndexByte(sql, ' '); i >= 0 {
		w = sql[:i]
	}
	switch strings.ToUpper(w) {
	case "BEGIN":
		return stBegin
	case "COMMIT":
		return stCommit
	case "ROLLBACK":
		return stRollback
	case "INSERT":
		return stInsert
	case "UPDATE":
		return stUpdate
	case "DELETE":
		return stDelete
	case "CREATE":
		return stCreate
	case "ALTER":
		return stAlter
	case "DROP":
		return stDrop
	case "TRUNCATE":
		return stTruncate
	case "RENAME":
		return stRename
	case "SET":
		return stSet
	}
	return stUnknown
}

func (b *builder) queryChange(ts uint32, sql string) ExpEvent {
	db := b.pickDB()
	if b.s.Chance(1, 12) {
		// a long statement (a bulk INSERT, a generated ALTER): 1 .. 6 KiB of text
		sql += " /* " + strings.Repeat("pad ", 256+b.s.N(1300)) + "*/"
	}
	sql = sql + " /*" + b.h.newMarker() + "*/"
	_, cs := b.queryEvent(ts, db, sql)
	return ExpEvent{StType: stmtTypeOf(sql), IsQuery: true, Timestamp: int64(ts), QDB: db, SQL: sql, Charset: cs, Marker: sql}
}

// txBody adds the statements of a transaction and returns the expected changes.
func (b *builder) txBody(ts uint32) []ExpEvent {
	s := b.s
	var exps []ExpEvent
	n := 1 + s.N(b.o.MaxStmts)
	if b.bulk > 0 {
		// (a narrow table of its own: thousands of statements must stay small)
		maxID := uint64(0)
		for _, x := range b.h.Tables {
			if x.ID > maxID && x.ID < 1<<40 {
				maxID = x.ID
			}
		}
		t := &TableDef{ID: maxID + 5, DB: "db", Name: "bulk_load", Cols: []ColDef{
			{Name: "id", Kind: kLong, TypeCode: tLong}, {Name: "v", Kind: kTiny, TypeCode: tTiny, Nullable: true}}}
		b.h.Tables = append(b.h.Tables, t)
		saved := b.o.MaxRows
		b.o.MaxRows = 1 // (the "hundreds of rows" mode must not multiply with thousands of statements)
		for i := 0; i < b.bulk; i++ {
			exps = append(exps, b.singleRowsEvent(ts, t)...)
		}
		b.o.MaxRows = saved
		b.bulk = 0
		return exps
	}
	for i := 0; i < n; i++ {
		if b.o.IgnorableGap > 0 && s.Chance(1, b.o.IgnorableGap*2) {
			b.ignorable(ts)
		}
		switch s.Weighted(16, 2, 2, 1, 1) {
		case 4:
			// a statement logged with a leading comment whose first word is a boundary
			// keyword. Whether a replica classifies the statement behind the comment
			// (a change of the transaction) or gives up on the comment (an unknown
			// statement, ignored) is its choice - the change is optional in the model;
			// what it must never do is take the comment for a commit point.
			lead := []string{"/* commit marker: order 1841 */ ", "/* rollback plan B */ ", "/*BEGIN*/ ", "/* begin work */ ", "/*commit*/"}[s.N(5)]
			stmt := []string{"UPDATE t1 SET a=2", "INSERT INTO t1 VALUES (1)", "delete from q"}[s.N(3)]
			ee := b.queryChange(ts, lead+stmt)
			ee.StType = stmtTypeOf(stmt)
			ee.Optional = true
			exps = append(exps, ee)
		case 0:
			exps = append(exps, b.rowsStatement(ts, b.pickTables())...)
		case 1:
			exps = append(exps, b.queryChange(ts, dmlSQL[s.N(len(dmlSQL))]))
		case 2:
			exps = append(exps, b.queryChange(ts, "SET @a=1"))
		case 3:
			// DDL that does not commit implicitly is logged inside the group
			exps = append(exps, b.queryChange(ts, []string{"CREATE TEMPORARY TABLE tmp1 (a int)", "DROP TEMPORARY TABLE tmp1",
				"create temporary table t_tmp like t1", "ALTER TABLE tmp1 ADD b int", "TRUNCATE TABLE tmp1", "DROP TEMPORARY TABLE IF EXISTS COMMIT", "CREATE TEMPORARY TABLE BEGIN (a int)"}[s.N(7)]))
		}
		ts = b.h.ts(s)
	}
	return exps
}

func (b *builder) posOf(ev *Event) Pos {
	return Pos{File: b.h.Files[ev.File].Name, Off: int64(ev.End)}
}

// addUnit generates one unit of the given kind.
func (b *builder) addUnit(kind unitKind) {
	s := b.s
	h := b.h
	forced := b.forceNextTx
	if b.forceNextTx {
		b.forceNextTx = false
		switch kind {
		case uTxXID, uTxCommit, uTxRollback:
		default:
			kind = uTxXID
		}
	}
	u := &Unit{Kind: kind, File: b.file, Start: b.off}
	b.unit = len(h.Units)
	h.Units = append(h.Units, u)
	startIdx := len(b.curFile().Events)
	ts := h.ts(s)
	// the originating server of a unit: the master itself, another upstream
	// server, or (circular topologies) the replica's own id
	b.unitSID = 0
	switch s.Weighted(12, 1, 1) {
	case 1:
		if b.o.HaveReplica {
			b.unitSID = b.o.ReplicaID
		}
	case 2:
		b.unitSID = 1 + uint32(s.N(1<<16))
	}
	mix := b.o.CaseMix
	beginSQL := func() string {
		return mixCase(s, "BEGIN", mix)
	}
	switch kind {
	case uTxXID, uTxCommit, uTxRollback:
		b.gtidEvent(ts)
		var exps []ExpEvent
		if kind == uTxRollback && !forced && s.Chance(1, 5) {
			// a ROLLBACK that no BEGIN precedes (a statement that failed in autocommit
			// mode and touched a non-transactional table): an empty transaction as well
		} else {
			b.queryEvent(ts, b.pickDB(), beginSQL())
			exps = b.txBody(ts)
		}
		ts = h.ts(s)
		if b.o.IgnorableGap > 0 && s.Chance(1, 10) {
			switch s.N(3) {
			case 0:
				b.add(evIgnorable, ts, 0x80, s.Bytes(s.N(8)), "IGNORABLE(before-commit)")
			case 1:
				b.add(evGTID, ts, 0, append([]byte{1}, s.Bytes(41)...), "GTID(before-commit)")
			case 2:
				b.add(evAnonymousGTID, ts, 0, append([]byte{1}, s.Bytes(41)...), "ANONYMOUS_GTID(before-commit)")
			}
		}
		var commit *Event
		switch kind {
		case uTxXID:
			commit = b.add(evXID, ts, 0, le64(nil, b.nextXid()), "XID")
		case uTxCommit:
			sql := mixCase(s, "COMMIT", mix)
			if s.Chance(1, 5) {
				sql += " /* trailing */"
			}
			commit, _ = b.queryEvent(ts, b.pickDB(), sql)
		case uTxRollback:
			sql := mixCase(s, "ROLLBACK", mix)
			commit, _ = b.queryEvent(ts, b.pickDB(), sql)
			exps = nil
		}
		u.Tx = &ExpTx{Unit: b.unit, Next: b.posOf(commit), Timestamp: int64(commit.Timestamp), Events: exps, Commit: commit}
	case uDDL:
		b.gtidEvent(ts)
		sql := ddlSQL[s.N(len(ddlSQL))]
		if mix {
			w := sql
			rest := ""
			if i := strings.IndexByte(sql, ' '); i >= 0 {
				w, rest = sql[:i], sql[i:]
			}
			sql = mixCase(s, strings.ToUpper(w), true) + rest
		}
		ee := b.queryChange(ts, sql)
		ev := b.curFile().Events[len(b.curFile().Events)-1]
		u.Tx = &ExpTx{Unit: b.unit, Next: b.posOf(ev), Timestamp: int64(ev.Timestamp), Events: []ExpEvent{ee}, Commit: ev}
	case uStmtDML:
		b.gtidEvent(ts)
		ee := b.queryChange(ts, dmlSQL[s.N(len(dmlSQL))])
		ev := b.curFile().Events[len(b.curFile().Events)-1]
		u.Tx = &ExpTx{Unit: b.unit, Next: b.posOf(ev), Timestamp: int64(ev.Timestamp), Events: []ExpEvent{ee}, Commit: ev}
	case uAutoRows:
		// a row change logged outside BEGIN..COMMIT: one table map, one rows event
		t := b.h.Tables[s.N(len(b.h.Tables))]
		exps := b.singleRowsEvent(ts, t)
		ev := b.curFile().Events[len(b.curFile().Events)-1]
		u.Tx = &ExpTx{Unit: b.unit, Next: b.posOf(ev), Timestamp: int64(ev.Timestamp), Events: exps, Commit: ev}
	case uUnknownStmt:
		sql := []string{"SAVEPOINT sp1", "FLUSH TABLES", "GRANT ALL ON *.* TO u", "ANALYZE TABLE t1", "", "beginx", "COMMITTED", "rollbackx y",
			"SAVEPOINT COMMIT", "CALL BEGIN", "XA COMMIT", "GRANT SELECT ON *.* TO ROLLBACK"}[s.N(12)]
		b.queryEvent(ts, b.pickDB(), sql)
	case uIgnorable:
		b.ignorable(ts)
	case uRotate:
		next := b.nextFileName()
		switch s.Weighted(10, 1, 1) {
		case 0:
			b.add(evRotate, ts, 0, rotateBody(4, next), "ROTATE -> "+next)
		case 1:
			// clean master shutdown: the file ends with a STOP event, no ROTATE
			b.add(evStop, ts, 0, nil, "STOP (master shutdown)")
		case 2:
			// master crash: the file ends with a torn transaction (BEGIN and changes,
			// no commit) and no ROTATE; the next file starts a new transaction
			b.queryEvent(ts, b.pickDB(), "BEGIN")
			b.txBody(ts)
			b.forceNextTx = true
			u.Desc = "crash-with-torn-transaction"
		}
		u.End = b.off
		u.Events = b.curFile().Events[startIdx:]
		b.startFile(next, 0)
		u.NewFile = b.file
		if u.Desc == "" {
			u.Desc = unitKindNames[kind]
		}
		return
	}
	u.End = b.off
	u.Events = b.curFile().Events[startIdx:]
	u.Desc = unitKindNames[kind]
}

func (b *builder) singleRowsEvent(ts uint32, t *TableDef) []ExpEvent {
	// reuse rowsStatement but force exactly one rows event
	s := b.s
	cfg := &b.h.Cfg
	types, meta, nullable := t.typesAndMeta()
	body := tableMapBody(cfg.Format, t.ID, t.Flags, t.DB, t.Name, types, meta, nullable, t.OptMeta)
	b.add(evTableMap, ts, 0, body, fmt.Sprintf("TABLE_MAP id=%d %s.%s cols=%d", t.ID, t.DB, t.Name, len(t.Cols)))
	kind := s.N(3)
	nrows := 1 + s.N(b.o.MaxRows)
	if len(t.Cols) > 100 && nrows > 2 {
		nrows = 2
	}
	imgMode := s.Weighted(3, 2, 1)
	ee := ExpEvent{DB: t.DB, Table: t.shownName(), Timestamp: int64(ts), Marker: b.h.newMarker()}
	var typ byte
	var before, after []bool
	var bitmaps [][]bool
	switch kind {
	case 0:
		typ, ee.StType = evWriteRowsV1, stInsert
		after = b.presence(t, imgMode)
		bitmaps = [][]bool{after}
	case 1:
		typ, ee.StType = evUpdateRowsV1, stUpdate
		before, after = b.presence(t, imgMode), b.presence(t, imgMode)
		bitmaps = [][]bool{before, after}
	case 2:
		typ, ee.StType = evDeleteRowsV1, stDelete
		before = b.presence(t, imgMode)
		bitmaps = [][]bool{before}
	}
	if cfg.RowsV2 {
		typ += evWriteRowsV2 - evWriteRowsV1
	}
	rflags := uint16(1)
	if b.bulk == 0 && s.Chance(1, 6) {
		// an autocommitted change is delivered at its rows event whatever that event's
		// flags say (STMT_END_F missing, session bits, bits nobody has defined yet)
		rflags = uint16(s.N(1 << 16))
	}
	rb := rowsBodyHeader(cfg.Format, cfg.RowsV2, t.ID, rflags, nil, len(t.Cols), bitmaps...)
	for r := 0; r < nrows; r++ {
		if before != nil {
			enc, exp := b.rowImage(t, before)
			rb = append(rb, enc...)
			ee.Identifies = append(ee.Identifies, exp)
		}
		if after != nil {
			enc, exp := b.rowImage(t, after)
			rb = append(rb, enc...)
			ee.Values = append(ee.Values, exp)
		}
	}
	b.add(typ, ts, 0, rb, fmt.Sprintf("ROWS(auto) type=%d table=%d rows=%d", typ, t.ID, nrows))
	return []ExpEvent{ee}
}

// GenHistory draws a complete history. A draw whose file would outgrow the
// 32-bit offset space (large values behind a sparse prefix near 2^32) is
// replaced by a draw without the sparse prefix.
func GenHistory(s *Stream, o0 *GenOpts) *History {
	h := genHistory(s, o0)
	if h.overflow {
		o2 := *o0
		o2.BigOffsets = false
		h = genHistory(s, &o2)
	}
	return h
}

func genHistory(s *Stream, o0 *GenOpts) *History {
	oc := *o0 // private copy: the rare modes below rewrite some knobs for this history only
	o := &oc
	h := &History{nextTS: 1500000000 + uint32(s.N(100000000))}
	h.wildTS = s.Chance(1, 3)
	exact := false
	manyTables := 0
	if o.Rare {
		switch s.Weighted(20, 1, 1, 1, 1) {
		case 1: // event timestamps around 2^31 / 2^32 / 0
			h.nextTS = []uint32{0, 1<<31 - 40, 1<<32 - 4000, 1}[s.N(4)]
		case 2: // a long history of small units: more than 256 packets on one connection
			o.MinUnits, o.MaxUnits = 50, 110
			o.MaxStmts, o.MaxRows, o.MaxCols, o.MaxTables = 2, 2, 3, 6
			o.Prof = genProfile{MaxStr: 6, Kinds: []colKind{kTiny, kLong, kVarchar, kYear}}
			o.WideTables = false
		case 3: // rows events with hundreds of rows
			o.MaxRows = 300
			o.MaxCols = 3
			o.MaxUnits = minInt(o.MaxUnits, 4)
			o.Prof = genProfile{MaxStr: 4, Kinds: []colKind{kTiny, kShort, kVarchar}}
			if s.Chance(1, 2) {
				// numeric tables whose only by-reference cells are BIT values
				o.Prof = genProfile{MaxStr: 4, Kinds: []colKind{kTiny, kLong, kBit, kLongLong, kBit}}
			}
			o.WideTables = false
		case 4: // packets of exactly critical sizes
			exact = true
		}
		switch s.Weighted(40, 1, 1) {
		case 1: // more than 1024 / 2048 distinct table ids on one connection
			manyTables = 1030 + s.N(40)
			if s.Chance(1, 4) {
				manyTables = 2050 + s.N(20)
			}
			o.MaxCols, o.MaxRows = 2, 1
			o.Prof = genProfile{MaxStr: 4, Kinds: []colKind{kTiny, kLong, kVarchar}}
			o.WideTables = false
			o.MaxTables = manyTables
			o.TableIDReuse, o.CountChange = false, false
		case 2: // transactions with many changes: every event count up to ~40 is reached
			o.MaxStmts = 4 + s.N(12)
			o.MaxRows, o.MaxCols = 1, 2
			o.MinUnits = maxInt(o.MinUnits, 3)
			o.MaxUnits = maxInt(o.MaxUnits, 4)
			o.Prof = genProfile{MaxStr: 4, Kinds: []colKind{kTiny, kLong, kVarchar}}
		}
	}
	h.Cfg = genHistCfg(s, o)
	ntab := 1 + s.N(o.MaxTables)
	if manyTables > 0 {
		ntab = manyTables
	}
	idBase := uint64(100 + s.N(1000))
	if s.Chance(1, 8) {
		// the highest ids that still fit the table-id field
		if h.Cfg.TableID4 {
			idBase = 1<<32 - 20 - uint64(ntab)
		} else {
			idBase = 1<<48 - 20 - uint64(ntab)
		}
	}
	if s.Chance(1, 8) {
		// one table sits exactly on an id next to a byte-width boundary (all-ones
		// in 1, 2, 3 or 4 bytes and the value after it, sign bits): ordinary ids
		// that a decoder may mistake for a reserved value
		pivots := []uint64{0xff, 0x100, 0xffff, 0x10000, 0xffffff, 0x1000000, 0x7fffffff, 0x80000000}
		if !h.Cfg.TableID4 {
			pivots = append(pivots, 0xffffffff, 0x100000000, 0x7fffffffffff, 0x800000000000)
		}
		pv := pivots[s.N(len(pivots))]
		k := uint64(s.N(ntab))
		if k >= pv {
			k = pv - 1
		}
		idBase = pv - k
	}
	for i := 0; i < ntab; i++ {
		t := genTable(s, i, o)
		t.ID = idBase + uint64(i)
		h.Tables = append(h.Tables, t)
	}
	oddIdentifiers(s, h.Tables)
	if o.AliasMapper && manyTables == 0 && s.Chance(1, 5) {
		// a mapper that answers under a canonical name of its own choosing
		for i, t := range h.Tables {
			if s.Chance(1, 2) && len(t.Name) < 200 {
				t.Alias = fmt.Sprintf("%s_all%d", t.Name, i)
			}
		}
	}
	if ntab >= 2 && manyTables == 0 && s.Chance(1, 6) {
		// confusable table ids: every id is the first one with two bytes swapped or
		// one byte copied over another (id decoding slips collide exactly on these)
		n := 6
		if h.Cfg.TableID4 {
			n = 4
		}
		base := make([]byte, n)
		used := map[byte]bool{0: true, 0xff: true}
		for i := range base {
			// (a minimised tape answers 0 for ever: walk on from the drawn value)
			v := byte(s.N(256))
			for used[v] {
				v++
			}
			used[v] = true
			base[i] = v
		}
		le := func(b []byte) uint64 {
			var v uint64
			for i := range b {
				v |= uint64(b[i]) << (8 * uint(i))
			}
			return v
		}
		seen := map[uint64]bool{le(base): true}
		h.Tables[0].ID = le(base)
		for i := 1; i < ntab; i++ {
			for tries := 0; tries < 20; tries++ {
				m := append([]byte(nil), base...)
				a, c := s.N(n), s.N(n)
				if s.Chance(1, 2) {
					m[a], m[c] = m[c], m[a]
				} else {
					m[a] = base[c]
				}
				if id := le(m); !seen[id] {
					seen[id] = true
					h.Tables[i].ID = id
					break
				}
			}
		}
		idBase = 1 << 20 // ids handed out later (exact table, second ids) stay clear of these
		for seen[idBase+uint64(ntab)] {
			idBase++
		}
	}
	if exact {
		h.exactTable = &TableDef{ID: idBase + uint64(ntab), DB: "db", Name: "exact",
			Cols: []ColDef{{Name: "payload", Kind: kBlob, TypeCode: tBlob, Meta: []byte{4}, P1: 4}}}
		h.Tables = append(h.Tables, h.exactTable)
	}
	b := &builder{h: h, s: s, o: o, unit: -1}
	gap := uint32(0)
	if h.Cfg.BigOffsets {
		switch s.N(3) {
		case 0:
			gap = uint32(1<<32 - 1 - uint32(1<<22) - uint32(s.N(1<<20)))
		case 1:
			gap = 1<<31 - uint32(s.N(4096))
		case 2:
			gap = 1<<24 - uint32(s.N(600))
		}
	}
	b.startFile(b.nextFileName(), gap)
	if o.LongIdle > 0 && s.Chance(1, o.LongIdle) {
		b.filler = []int{1000, 1024, 4096, 10000}[s.Weighted(1, 1, 1, 2)] + 8
		b.addUnit(uIgnorable)
	}
	if manyTables > 0 {
		// every table is used for the first time by a one- or two-table statement
		for i := 0; i < ntab; {
			n := 1 + s.N(2)
			if i+n > ntab {
				n = ntab - i
			}
			b.addTxWithTables(h.Tables[i : i+n])
			i += n
		}
		return h
	}
	nunits := o.MinUnits + s.N(o.MaxUnits-o.MinUnits+1)
	rotLeft := o.MaxFiles - 1
	w := o.UnitWeights
	bulkAt, bulkN := -1, 0
	if o.Rare && o.Bulk > 0 && s.Chance(1, o.Bulk) {
		// a bulk load: one transaction of more than 1024 / 4096 single-row statements
		bulkAt, bulkN = s.N(nunits), []int{1030, 1030, 4100, 4100, 16400}[s.N(5)]
	}
	for i := 0; i < nunits; i++ {
		if i == bulkAt {
			b.bulk = bulkN
			b.addUnit(uTxXID)
		}
		ww := w
		if rotLeft <= 0 {
			ww[uRotate] = 0
		}
		k := unitKind(s.Weighted(ww[:]...))
		if k == uRotate {
			rotLeft--
		}
		if o.IgnorableGap > 0 && s.Chance(1, o.IgnorableGap) && k != uIgnorable {
			b.addUnit(uIgnorable)
		}
		if exact && s.Chance(1, 2) {
			if b.forceNextTx {
				b.addUnit(uTxXID) // after a torn transaction the next file opens with BEGIN
			}
			b.addExactUnit()
			continue
		}
		if o.TableIDReuse && s.Chance(1, 6) && len(h.Tables) < 12 {
			// the same table shows up under a NEW table id (ids change on FLUSH
			// TABLES, cache eviction, DDL): same name, same column count, names and
			// signedness, other types; both ids stay in use
			src := h.Tables[s.N(len(h.Tables))]
			if src.Name != "exact" {
				nt := &TableDef{DB: src.DB, Name: src.Name, Alias: src.Alias, Flags: src.Flags, OptMeta: src.OptMeta}
				maxID := uint64(0)
				for _, t := range h.Tables {
					if t.ID > maxID {
						maxID = t.ID
					}
				}
				nt.ID = maxID + 1
				for ci := range src.Cols {
					c := src.Cols[ci]
					if s.Chance(1, 2) && c.Kind != kJSON {
						nc := genColDef(s, ci, &o.Prof)
						nc.Name, nc.Unsigned = c.Name, c.Unsigned
						c = nc
					}
					nt.Cols = append(nt.Cols, c)
				}
				h.Tables = append(h.Tables, nt)
			}
		}
		if o.TableIDReuse && s.Chance(1, 8) && len(h.Tables) >= 2 && len(h.Tables) < 12 && h.exactTable == nil {
			// a master restarted in the middle of the history counts its table ids from
			// the start again: an id that stood for one table now announces another one
			// (other name, other columns). From here on the id belongs to the new table.
			old := h.Tables[s.N(len(h.Tables))]
			nt := genTable(s, 100+len(h.Tables)+20*len(h.retired), o) // (a name no other table of the history has)
			nt.ID = old.ID
			aliasFree := old.Alias != ""
			for _, x := range append(append([]*TableDef{}, h.Tables...), h.retired...) {
				if x.DB == old.DB && x.Name == old.Alias {
					aliasFree = false // (every table of a history needs a name of its own)
				}
			}
			if aliasFree && s.Chance(1, 2) {
				// ... the table that literally bears the name the mapper used for the old one
				nt.DB, nt.Name = old.DB, old.Alias
			} else if s.Chance(1, 3) && len(old.Name) < 100 && len(old.DB) < 100 {
				// ... a table whose name differs from the old one in letter case only
				nt.DB, nt.Name = old.DB, swapCase(old.Name)
				if nt.Name == old.Name {
					nt.DB = swapCase(old.DB)
				}
				if nt.DB == old.DB && nt.Name == old.Name {
					nt.Name = old.Name + "B"
				}
				// (the simulated mapper knows tables by name: every table of a history,
				// retired ones included, needs a name of its own)
				for clash := true; clash; {
					clash = false
					for _, x := range append(append([]*TableDef{}, h.Tables...), h.retired...) {
						if x != nt && x.DB == nt.DB && x.Name == nt.Name {
							clash = true
						}
					}
					if clash {
						nt.Name += "x"
					}
				}
			}
			if s.Chance(1, 2) {
				// same shape, other name: nothing but the name tells the two apart
				nt.Cols = append([]ColDef(nil), old.Cols...)
				for ci := range nt.Cols {
					nt.Cols[ci].Name = fmt.Sprintf("n%d_%s", ci, nt.Cols[ci].Name)
					nt.Cols[ci].Unsigned = !nt.Cols[ci].Unsigned
				}
			}
			for i, t := range h.Tables {
				if t == old {
					h.Tables[i] = nt // later statements use the new table; the old one is gone
				}
			}
			h.retired = append(h.retired, old)
		}
		if o.TableIDReuse && s.Chance(1, 4) {
			// the table keeps its id, name, column count, column names and
			// signedness, but later table maps announce other types/metadata:
			// rows must be decoded with the most recent map for the id
			t := h.Tables[s.N(len(h.Tables))]
			for ci := range t.Cols {
				if s.Chance(1, 2) && t.Cols[ci].Kind != kJSON {
					old := t.Cols[ci]
					nc := genColDef(s, ci, &o.Prof)
					nc.Name, nc.Unsigned = old.Name, old.Unsigned
					t.Cols[ci] = nc
				}
			}
		}
		b.addUnit(k)
	}
	if o.CountChange && s.Chance(1, 3) {
		if b.forceNextTx {
			b.addUnit(uTxXID)
		}
		b.addPoisonUnit()
		if s.Chance(1, 2) {
			b.addUnit(uTxXID) // never delivered: the stream ended at the poison unit
		}
	}
	if o.PoisonJSON && s.Chance(1, 4) {
		if b.forceNextTx {
			b.addUnit(uTxXID)
		}
		b.addPoisonJSONUnit()
		if s.Chance(1, 2) {
			b.addUnit(uTxXID) // never delivered
		}
	}
	if h.Files[0].Gap > 0 && !h.overflow && s.Chance(1, 2) {
		h.alignFile0(s)
	}
	if len(h.Files) > 1 && !h.overflow && s.Chance(1, 4) {
		h.twinFiles(s)
	}
	return h
}

// twinFiles pads the start of a later file with one ignorable event so that its
// first commit ends at exactly the offset of the previous file's last commit
// (files of equal shape: the same coordinate number means different things in
// consecutive files).
func (h *History) twinFiles(s *Stream) {
	fi := 1 + s.N(len(h.Files)-1)
	f := h.Files[fi]
	if f.Gap > 0 || len(f.Head) == 0 {
		return
	}
	var prevLast, first *Unit
	for _, u := range h.Units {
		if u.Tx == nil {
			continue
		}
		if u.File == fi-1 {
			prevLast = u
		}
		if u.File == fi && first == nil {
			first = u
		}
	}
	if prevLast == nil || first == nil {
		return
	}
	min := int64(binlogHeaderSize)
	if f.Checksum {
		min += 4
	}
	delta := prevLast.Tx.Next.Off - first.Tx.Next.Off
	if delta < min || delta > 1<<18 || int64(f.Size)+delta > 1<<31 {
		return
	}
	headEnd := f.Head[len(f.Head)-1].End
	idx := 0
	for i, e := range f.Events {
		if e.End == headEnd {
			idx = i + 1
		}
	}
	body := make([]byte, delta-min)
	filler := &Event{Type: 77, Timestamp: f.Head[0].Timestamp, ServerID: f.Head[0].ServerID, Body: body,
		File: fi, Offset: headEnd, End: headEnd + uint32(delta), Desc: "UNKNOWN-TYPE (padding to the previous file's last commit offset)", Unit: -1}
	filler.Raw = encodeEvent(filler.Timestamp, filler.Type, filler.ServerID, filler.End, 0, body, f.Checksum)
	for _, e := range f.Events[idx:] {
		e.Offset = uint32(int64(e.Offset) + delta)
		e.End = uint32(int64(e.End) + delta)
		e.Raw = encodeEvent(e.Timestamp, e.Type, e.ServerID, e.End, e.Flags, e.Body, f.Checksum || e.Type == evFormatDesc)
	}
	evs := append([]*Event{}, f.Events[:idx]...)
	evs = append(evs, filler)
	f.Events = append(evs, f.Events[idx:]...)
	f.Head = append(f.Head, filler)
	for _, x := range h.Units {
		if x.File != fi {
			continue
		}
		x.Start = uint32(int64(x.Start) + delta)
		x.End = uint32(int64(x.End) + delta)
		if x.Tx != nil {
			x.Tx.Next.Off += delta
		}
	}
	f.Size = uint32(int64(f.Size) + delta)
}

// addPoisonJSONUnit: a transaction with a JSON value that contains an opaque
// scalar of a field type the decoder does not support (e.g. a BIT or binary
// string put into JSON), nested in an array/object or at top level. Decoding
// must fail, so the stream must end with an error here.
func (b *builder) addPoisonJSONUnit() {
	s := b.s
	h := b.h
	maxID := uint64(0)
	for _, t := range h.Tables {
		if t.ID > maxID && t.ID < 1<<40 {
			maxID = t.ID
		}
	}
	t := &TableDef{ID: maxID + 7, DB: "db", Name: "jdoc", Cols: []ColDef{
		{Name: "id", Kind: kLong, TypeCode: tLong},
		{Name: "doc", Kind: kJSON, TypeCode: tJSON, Meta: []byte{4}, P1: 4, Nullable: true}}}
	h.Tables = append(h.Tables, t)
	opaque := []byte{byte([]int{16, 15, 253, 252, 7, 13}[s.N(6)]), 2, 0xca, 0xfe} // field type, length, bytes
	var doc []byte
	switch s.N(3) {
	case 0: // top-level opaque
		doc = append([]byte{15}, opaque...)
	case 1: // small array [1, <opaque>]
		doc = []byte{2, 2, 0, 14, 0, 5, 1, 0, 15, 10, 0}
		doc = append(doc, opaque...)
	case 2: // small object {"a": <opaque>}
		// count=1 size key-entry(offset,len) value-entry(type,offset) key value
		doc = []byte{0, 1, 0, 16, 0, 11, 0, 1, 0, 15, 12, 0, 'a'}
		doc = append(doc, opaque...)
	}
	u := &Unit{Kind: uTxXID, File: b.file, Start: b.off, Poison: true}
	b.unit = len(h.Units)
	h.Units = append(h.Units, u)
	startIdx := len(b.curFile().Events)
	ts := h.ts(s)
	b.unitSID = 0
	cfg := &h.Cfg
	b.queryEvent(ts, "db", "BEGIN")
	types, meta, nullable := t.typesAndMeta()
	typ := byte(evWriteRowsV1)
	if cfg.RowsV2 {
		typ = evWriteRowsV2
	}
	if s.Chance(1, 3) {
		// other decode failure: a rows event (with a real row) for a table id that no
		// table map has announced on this connection, e.g. the all-ones 3-byte value
		// some clients treat as "dummy event"
		cands := []uint64{0xffffff, 0xffffff, maxID + 9, 1, uint64(s.U64() & 0xffffffff)}
		if !cfg.TableID4 {
			cands = append(cands, 0xffffffff, 0xffffffffffff)
		} else {
			cands = append(cands, 0xffffffff)
		}
		id := cands[s.N(len(cands))]
		for _, x := range h.Tables {
			if x.ID == id {
				id = maxID + 11
			}
		}
		typ = byte([]int{evWriteRowsV1, evUpdateRowsV1, evDeleteRowsV1}[s.N(3)])
		bms := [][]bool{{true, true}}
		if typ == evUpdateRowsV1 {
			bms = append(bms, []bool{true, true})
		}
		if cfg.RowsV2 {
			typ += evWriteRowsV2 - evWriteRowsV1
		}
		body := rowsBodyHeader(cfg.Format, cfg.RowsV2, id, 1, nil, 2, bms...)
		for range bms {
			body = append(body, 0)
			body = leN(body, uint64(1+s.N(1000)), 4)
			body = leN(body, 3, 4)
			body = append(body, 4, 1, 0) // JSON literal true
		}
		h.Tables = h.Tables[:len(h.Tables)-1] // the table of this unit is never announced
		b.add(typ, ts, 0, body, fmt.Sprintf("ROWS for table id %d which no table map announced", id))
		u.Desc = "tx-with-rows-for-unannounced-table-id"
	} else {
		b.add(evTableMap, ts, 0, tableMapBody(cfg.Format, t.ID, 1, t.DB, t.Name, types, meta, nullable, nil), fmt.Sprintf("TABLE_MAP id=%d db.jdoc", t.ID))
		good := []byte{4, 1} // JSON literal true
		img := func(body []byte, d []byte) []byte {
			body = append(body, 0)                   // null bitmap
			body = leN(body, uint64(1+s.N(1000)), 4) // id
			body = leN(body, uint64(len(d)), 4)
			return append(body, d...)
		}
		switch s.N(5) {
		case 4: // the table map itself: its metadata block is longer than its columns account for
			f := b.curFile()
			tmEv := f.Events[len(f.Events)-1]
			longMeta := append(append([]byte(nil), meta...), 0, 0)
			tmEv2 := tableMapBody(cfg.Format, t.ID, 1, t.DB, t.Name, types, longMeta, nullable, nil)
			// replace the table map just added by the over-long one
			f.Events = f.Events[:len(f.Events)-1]
			b.off = tmEv.Offset
			b.add(evTableMap, ts, 0, tmEv2, fmt.Sprintf("TABLE_MAP id=%d db.jdoc with a metadata block 2 bytes too long", t.ID))
			body := rowsBodyHeader(cfg.Format, cfg.RowsV2, t.ID, 1, nil, 2, []bool{true, true})
			b.add(typ, ts, 0, img(body, good), "ROWS (well-formed) behind an undecodable table map")
			u.Desc = "tx-with-undecodable-table-map"
		case 0: // insert
			body := rowsBodyHeader(cfg.Format, cfg.RowsV2, t.ID, 1, nil, 2, []bool{true, true})
			b.add(typ, ts, 0, img(body, doc), "ROWS json with an unsupported opaque scalar")
		case 1: // delete: the bad document is in the before image
			body := rowsBodyHeader(cfg.Format, cfg.RowsV2, t.ID, 1, nil, 2, []bool{true, true})
			b.add(typ+2, ts, 0, img(body, doc), "ROWS(delete) json with an unsupported opaque scalar")
		case 2: // update: bad before image, fine after image
			body := rowsBodyHeader(cfg.Format, cfg.RowsV2, t.ID, 1, nil, 2, []bool{true, true}, []bool{true, true})
			b.add(typ+1, ts, 0, img(img(body, doc), good), "ROWS(update) unsupported opaque scalar in the before image")
		case 3: // update: fine before image, bad after image
			body := rowsBodyHeader(cfg.Format, cfg.RowsV2, t.ID, 1, nil, 2, []bool{true, true}, []bool{true, true})
			b.add(typ+1, ts, 0, img(img(body, good), doc), "ROWS(update) unsupported opaque scalar in the after image")
		}
	}
	commit := b.add(evXID, h.ts(s), 0, le64(nil, s.U64()), "XID")
	u.Tx = &ExpTx{Unit: b.unit, Next: b.posOf(commit), Timestamp: int64(commit.Timestamp), Commit: commit}
	u.End = b.off
	u.Events = b.curFile().Events[startIdx:]
	if u.Desc == "" {
		u.Desc = "tx-with-undecodable-json"
	}
}

// addTxWithTables: BEGIN, one rows statement over the given tables, XID.
func (b *builder) addTxWithTables(tables []*TableDef) {
	s := b.s
	h := b.h
	u := &Unit{Kind: uTxXID, File: b.file, Start: b.off}
	b.unit = len(h.Units)
	h.Units = append(h.Units, u)
	startIdx := len(b.curFile().Events)
	ts := h.ts(s)
	b.unitSID = 0
	b.queryEvent(ts, "db", "BEGIN")
	exps := b.rowsStatement(ts, tables)
	commit := b.add(evXID, ts, 0, le64(nil, s.U64()), "XID")
	u.Tx = &ExpTx{Unit: b.unit, Next: b.posOf(commit), Timestamp: int64(commit.Timestamp), Events: exps, Commit: commit}
	u.End = b.off
	u.Events = b.curFile().Events[startIdx:]
	u.Desc = unitKindNames[uTxXID]
}

// alignFile0 shifts the sparse part of the first file so that one commit ends
// exactly on a critical 32-bit offset (2^31-1, 2^31, 2^32-2, 2^32-1, 2^24).
func (h *History) alignFile0(s *Stream) {
	f := h.Files[0]
	var cands []*Unit
	for _, u := range h.Units {
		if u.File == 0 && u.Tx != nil {
			cands = append(cands, u)
		}
	}
	if len(cands) == 0 {
		return
	}
	target := []uint64{1<<31 - 1, 1 << 31, 1<<32 - 2, 1<<32 - 1, 1 << 24, 1<<32 - 1}[s.N(6)]
	u := cands[s.N(len(cands))]
	if target >= 1<<32-2 {
		u = cands[len(cands)-1]
	}
	delta := int64(target) - int64(u.End)
	headEnd := int64(f.Head[len(f.Head)-1].End)
	if int64(f.Gap)+delta <= headEnd || int64(f.Size)+delta > 1<<32-1 {
		return
	}
	withCk := f.Checksum
	for _, e := range f.Events {
		if e.Offset < f.Gap {
			continue // head events stay at the start of the file
		}
		e.Offset = uint32(int64(e.Offset) + delta)
		e.End = uint32(int64(e.End) + delta)
		e.Raw = encodeEvent(e.Timestamp, e.Type, e.ServerID, e.End, e.Flags, e.Body, withCk)
	}
	for _, x := range h.Units {
		if x.File != 0 {
			continue
		}
		x.Start = uint32(int64(x.Start) + delta)
		x.End = uint32(int64(x.End) + delta)
		if x.Tx != nil {
			x.Tx.Next.Off += delta
		}
	}
	f.Gap = uint32(int64(f.Gap) + delta)
	f.Size = uint32(int64(f.Size) + delta)
}

func maxInt(a, b int) int {
	if a > b {
		return a
	}
	return b
}

// criticalPacketSizes are MySQL packet payload lengths (1 status byte + event)
// around the driver's buffer size, its cache limit, one-byte/two-byte length
// boundaries and the 2^24-1 split point.
var criticalPacketSizes = []int{250, 251, 252, 255, 256, 257, 4091, 4092, 4093, 4095, 4096, 4097, 4100, 8191, 8192, 8193,
	65535, 65536, 65537, 262139, 262140, 262141, 262143, 262144, 262145, 262148}

// addExactUnit adds an autocommitted insert into the single-blob table whose
// packet payload has exactly one of the critical sizes (or is within +-3).
func (b *builder) addExactUnit() {
	s := b.s
	h := b.h
	cfg := &h.Cfg
	t := h.exactTable
	target := criticalPacketSizes[s.N(len(criticalPacketSizes))] + s.N(7) - 3
	if s.Chance(1, 60) && !h.jumbo {
		// (one such event per history: each costs some 200 MB of copies on its way)
		h.jumbo = true
		target = 1<<24 - 1 + s.N(5) - 2 // split over two MySQL packets (or exactly at the limit)
	}
	u := &Unit{Kind: uAutoRows, File: b.file, Start: b.off}
	b.unit = len(h.Units)
	h.Units = append(h.Units, u)
	startIdx := len(b.curFile().Events)
	ts := h.ts(s)
	// always announced as a single LONGBLOB column, whatever other statements did to the table
	b.add(evTableMap, ts, 0, tableMapBody(cfg.Format, t.ID, t.Flags, t.DB, t.Name, []byte{tBlob}, []byte{4}, []bool{false}, nil), fmt.Sprintf("TABLE_MAP id=%d db.exact", t.ID))
	typ := byte(evWriteRowsV1)
	if cfg.RowsV2 {
		typ = evWriteRowsV2
	}
	head := rowsBodyHeader(cfg.Format, cfg.RowsV2, t.ID, 1, nil, 1, []bool{true})
	// event = 19 + head + null bitmap (1) + 4-byte length + n (+4 checksum); packet payload = 1 + event
	fixed := 1 + binlogHeaderSize + len(head) + 1 + 4
	if b.curFile().Checksum {
		fixed += 4
	}
	n := target - fixed
	if n < 0 {
		n = 0
	}
	p := payload(s, n)
	body := append(head, 0)
	body = leN(body, uint64(n), 4)
	body = append(body, p...)
	ev := b.add(typ, ts, 0, body, fmt.Sprintf("ROWS(exact) packet payload=%d", 1+len(body)+binlogHeaderSize))
	v := Val{Enc: nil, Text: p}
	ee := ExpEvent{StType: stInsert, DB: t.DB, Table: t.shownName(), Timestamp: int64(ts), Marker: h.newMarker(),
		Values: [][]ExpCol{{{Name: "payload", Type: tBlob, Val: &v}}}}
	u.Tx = &ExpTx{Unit: b.unit, Next: b.posOf(ev), Timestamp: int64(ev.Timestamp), Events: []ExpEvent{ee}, Commit: ev}
	u.End = b.off
	u.Events = b.curFile().Events[startIdx:]
	u.Desc = fmt.Sprintf("exact-size(%d)", target)
}

// addPoisonUnit: BEGIN, a table map that re-announces an existing table id with
// k more or fewer columns, rows encoded for that map, XID.
func (b *builder) addPoisonUnit() {
	s := b.s
	h := b.h
	orig := h.Tables[s.N(len(h.Tables))]
	t := &TableDef{ID: orig.ID, DB: orig.DB, Name: orig.Name, Alias: orig.Alias, Flags: orig.Flags}
	t.Cols = append(t.Cols, orig.Cols...)
	desc := "tx-with-column-count-change"
	if s.Chance(1, 3) {
		// same shape, but one column is announced with a type code the parser has
		// no decoder for (20 = typed array, 242 = vector): the table map is
		// well formed and the rows would still parse under the previous map
		i := s.N(len(t.Cols))
		c := t.Cols[i]
		c.TypeCode = []byte{20, 242, 243, 244}[s.N(4)]
		t.Cols[i] = c
		desc = "tx-with-unknown-column-type"
	} else if len(t.Cols) > 1 && s.Chance(1, 2) {
		t.Cols = t.Cols[:len(t.Cols)-1-s.N(minInt(3, len(t.Cols)-1))]
	} else {
		n := 1 + s.N(3)
		for i := 0; i < n; i++ {
			t.Cols = append(t.Cols, genColDef(s, len(t.Cols), &b.o.Prof))
		}
	}
	u := &Unit{Kind: uTxXID, File: b.file, Start: b.off, Poison: true}
	b.unit = len(h.Units)
	h.Units = append(h.Units, u)
	startIdx := len(b.curFile().Events)
	ts := h.ts(s)
	b.gtidEvent(ts)
	b.queryEvent(ts, b.pickDB(), "BEGIN")
	// the table must have been announced with its real shape on this connection
	// first (otherwise the first-sight check fires, which is also an error)
	b.forceRows = true
	b.rowsStatement(ts, []*TableDef{orig})
	exps := b.rowsStatement(ts, []*TableDef{t})
	b.forceRows = false
	commit := b.add(evXID, h.ts(s), 0, le64(nil, s.U64()), "XID")
	u.Tx = &ExpTx{Unit: b.unit, Next: b.posOf(commit), Timestamp: int64(commit.Timestamp), Events: exps, Commit: commit}
	u.End = b.off
	u.Events = b.curFile().Events[startIdx:]
	u.Desc = desc
}

// ---------------------------------------------------------------------------
// Reference model

// Boundaries returns every coordinate a replica may legitimately start from:
// the start of each file, after each head event, and every unit boundary.
func (h *History) Boundaries() []Pos {
	var out []Pos
	seen := map[Pos]bool{}
	add := func(p Pos) {
		if !seen[p] {
			seen[p] = true
			out = append(out, p)
		}
	}
	for fi, f := range h.Files {
		if f.Gap == 0 {
			add(Pos{f.Name, 4})
			for _, e := range f.Head {
				add(Pos{f.Name, int64(e.End)})
			}
		} else {
			add(Pos{f.Name, int64(f.Gap)})
		}
		for _, u := range h.Units {
			if u.File == fi {
				add(Pos{f.Name, int64(u.Start)})
				add(Pos{f.Name, int64(u.End)})
			}
		}
	}
	return out
}

// fileIndex returns the index of the file with the name or -1.
func (h *History) fileIndex(name string) int {
	if name == "" {
		return 0 // COM_BINLOG_DUMP with an empty name means the master's first binlog
	}
	for i, f := range h.Files {
		if f.Name == name {
			return i
		}
	}
	return -1
}

// IsEventBoundary reports whether (file, off) is the start of an event, the
// end of the file, or the file base.
func (h *History) IsEventBoundary(p Pos) bool {
	fi := h.fileIndex(p.File)
	if fi < 0 {
		return false
	}
	f := h.Files[fi]
	if f.Gap > 0 && p.Off < int64(f.Gap) {
		return false
	}
	if p.Off == 4 || p.Off == int64(f.Size) {
		return true
	}
	for _, e := range f.Events {
		if int64(e.Offset) == p.Off {
			return true
		}
	}
	return false
}

// unitsFrom returns the indices of the units a stream starting at p serves
// completely, or ok=false if p lies strictly inside a unit (a start there
// would split a transaction).
func (h *History) unitsFrom(p Pos) (idx []int, ok bool) {
	fi := h.fileIndex(p.File)
	if fi < 0 {
		return nil, false
	}
	for i, u := range h.Units {
		switch {
		case u.File < fi:
			continue
		case u.File > fi:
			idx = append(idx, i)
		default:
			if int64(u.Start) >= p.Off {
				idx = append(idx, i)
			} else if int64(u.End) > p.Off {
				return nil, false
			}
		}
	}
	return idx, true
}

// Model returns the deliveries expected from a stream that starts at p.
func (h *History) Model(p Pos) ([]*ExpTx, bool) {
	txs, _, ok := h.ModelP(p)
	return txs, ok
}

// ModelP additionally reports the index of the poison unit (or -1) at which
// the stream must end with an error.
func (h *History) ModelP(p Pos) ([]*ExpTx, int, bool) {
	poison := -1
	txs, ok := h.model(p, &poison)
	return txs, poison, ok
}

func (h *History) model(p Pos, poison *int) ([]*ExpTx, bool) {
	idx, ok := h.unitsFrom(p)
	if !ok || !h.IsEventBoundary(p) {
		return nil, false
	}
	cur := p
	curFile := h.fileIndex(p.File)
	emptyName := p.File == "" // labels carry the empty name until the first file switch
	var out []*ExpTx
	for _, i := range idx {
		u := h.Units[i]
		if u.File > curFile {
			// every file switch reaches the replica as a (fake) rotate event naming
			// offset 4 of the next file, also when the stream started after the
			// real rotate event of the previous file
			curFile = u.File
			cur = Pos{h.Files[u.File].Name, 4}
			emptyName = false
		}
		if u.Kind == uRotate {
			cur = Pos{h.Files[u.NewFile].Name, 4}
			curFile = u.NewFile
			emptyName = false
			continue
		}
		if u.Poison {
			*poison = i
			break
		}
		if u.Tx != nil {
			tx := *u.Tx
			if emptyName {
				tx.Next.File = ""
			}
			tx.Now = cur
			cur = tx.Next
			out = append(out, &tx)
		}
	}
	return out, true
}

// ResumeOK reports whether a stream started at p delivers exactly the
// transactions of the given units (by unit index), i.e. whether p is an
// equivalent resume coordinate for that suffix.
func (h *History) ResumeOK(p Pos, remaining []int) bool {
	m, ok := h.Model(p)
	if !ok {
		return false
	}
	if len(m) != len(remaining) {
		return false
	}
	for i := range m {
		if m[i].Unit != remaining[i] {
			return false
		}
	}
	return true
}
