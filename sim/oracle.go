package verifsim

// Oracles: checks over the recorded history of a run against the reference
// model. Every clause has a stable rule id.

import (
	"fmt"
	"strings"
)

// Violation is one oracle failure.
type Violation struct {
	Property string
	Rule     string
	Detail   string
	Attempt  int
}

func (v Violation) String() string {
	return fmt.Sprintf("%s/%s (attempt %d): %s", v.Property, v.Rule, v.Attempt, v.Detail)
}

func trunc(b []byte) string {
	if len(b) > 48 {
		return fmt.Sprintf("%q...(%d bytes)", b[:48], len(b))
	}
	return fmt.Sprintf("%q", b)
}

func compareRows(what string, exp [][]ExpCol, got [][]SnapCol) (string, string) {
	if len(exp) != len(got) {
		return "row-count", fmt.Sprintf("%s: expected %d rows, got %d", what, len(exp), len(got))
	}
	for i := range exp {
		if len(exp[i]) != len(got[i]) {
			return "column-count", fmt.Sprintf("%s row %d: expected %d columns, got %d", what, i, len(exp[i]), len(got[i]))
		}
		for j := range exp[i] {
			e, g := exp[i][j], got[i][j]
			where := fmt.Sprintf("%s row %d column %d (%s, type %d)", what, i, j, e.Name, e.Type)
			if e.Name != g.Name {
				return "column-name", fmt.Sprintf("%s: name %q", where, g.Name)
			}
			if e.Type != g.Type {
				return "column-type", fmt.Sprintf("%s: type %d", where, g.Type)
			}
			if e.Absent != g.IsEmpty {
				return "absent-flag", fmt.Sprintf("%s: absent expected %v got %v", where, e.Absent, g.IsEmpty)
			}
			if e.Absent {
				if !g.Nil {
					return "absent-flag", fmt.Sprintf("%s: absent column carries data %s", where, trunc(g.Data))
				}
				continue
			}
			if e.Null {
				if !g.Nil {
					return "null-marker", fmt.Sprintf("%s: NULL delivered as %s", where, trunc(g.Data))
				}
				continue
			}
			if g.Nil {
				return "null-marker", fmt.Sprintf("%s: value %s delivered as NULL", where, trunc(e.Val.Text))
			}
			if !valueMatches(e.Val, g.Data) {
				want := trunc(e.Val.Text)
				if e.Val.Cmp != cmpExact {
					want = fmt.Sprintf("float bits %#x", e.Val.Bits)
				}
				return "value:type" + fmt.Sprint(e.Type), fmt.Sprintf("%s: encoded %x expected %s got %s", where, e.Val.Enc, want, trunc(g.Data))
			}
		}
	}
	return "", ""
}

// compareTx compares one delivery with its expectation (labels excluded).
func compareTx(exp *ExpTx, got *SnapTx) (rule, detail string) {
	opt := false
	for i := range exp.Events {
		opt = opt || exp.Events[i].Optional
	}
	if !opt {
		return compareTxExact(exp, got)
	}
	// optional changes (comment-led statements): all of them or none
	if r, _ := compareTxExact(exp, got); r == "" {
		return "", ""
	}
	without := *exp
	without.Events = nil
	for i := range exp.Events {
		if !exp.Events[i].Optional {
			without.Events = append(without.Events, exp.Events[i])
		}
	}
	return compareTxExact(&without, got)
}

func compareTxExact(exp *ExpTx, got *SnapTx) (rule, detail string) {
	if exp.Timestamp != got.Timestamp {
		return "tx-timestamp", fmt.Sprintf("expected %d got %d", exp.Timestamp, got.Timestamp)
	}
	if len(exp.Events) != len(got.Events) {
		return "event-count", fmt.Sprintf("expected %d changes, got %d", len(exp.Events), len(got.Events))
	}
	for i := range exp.Events {
		e, g := &exp.Events[i], &got.Events[i]
		if e.StType != g.Type {
			return "event-kind", fmt.Sprintf("change %d: expected statement type %d got %d", i, e.StType, g.Type)
		}
		if e.Timestamp != g.Timestamp {
			return "event-timestamp", fmt.Sprintf("change %d: expected %d got %d", i, e.Timestamp, g.Timestamp)
		}
		if e.IsQuery {
			if e.QDB != g.QDB || e.SQL != g.SQL {
				return "query", fmt.Sprintf("change %d: expected db=%q sql=%q got db=%q sql=%q", i, e.QDB, e.SQL, g.QDB, g.SQL)
			}
			if (e.Charset == nil) != (g.Charset == nil) || (e.Charset != nil && *e.Charset != *g.Charset) {
				return "query", fmt.Sprintf("change %d: charset expected %v got %v", i, e.Charset, g.Charset)
			}
			if len(g.Values) != 0 || len(g.Identifies) != 0 {
				return "row-count", fmt.Sprintf("change %d: statement carries rows", i)
			}
			continue
		}
		if g.SQL != "" {
			return "query", fmt.Sprintf("change %d: rows change carries SQL %q", i, g.SQL)
		}
		if e.DB != g.DB || e.Table != g.Table {
			return "event-table", fmt.Sprintf("change %d: expected %s.%s got %s.%s", i, e.DB, e.Table, g.DB, g.Table)
		}
		if r, d := compareRows(fmt.Sprintf("change %d after-image", i), e.Values, g.Values); r != "" {
			return r, d
		}
		if r, d := compareRows(fmt.Sprintf("change %d before-image", i), e.Identifies, g.Identifies); r != "" {
			return r, d
		}
	}
	return "", ""
}

// unitByNext maps an end label to the unit whose commit ends there.
func (h *History) unitByNext(p Pos) int {
	if p.File == "" && len(h.Files) > 0 {
		p.File = h.Files[0].Name // a stream started with an empty file name labels the first file ""
	}
	for i, u := range h.Units {
		if u.Tx != nil && u.Tx.Next == p {
			return i
		}
	}
	return -1
}

// checkDeliveries compares the deliveries of one fault-free attempt with the model.
func checkDeliveries(prop string, h *History, start Pos, calls []*HandlerCall, att int, labels bool) []Violation {
	var vs []Violation
	exp, ok := h.Model(start)
	if !ok {
		return []Violation{{prop, "harness", "start position is not a boundary: " + start.String(), att}}
	}
	n := len(calls)
	if n > len(exp) {
		n = len(exp)
	}
	for i := 0; i < n; i++ {
		if calls[i].Snap == nil {
			vs = append(vs, Violation{prop, "extra-call", fmt.Sprintf("delivery %d is a nil transaction", i), att})
			return vs
		}
		rule, detail := compareTx(exp[i], calls[i].Snap)
		if rule != "" {
			// is it some other expected transaction?
			for j := range exp {
				if j != i {
					if r2, _ := compareTx(exp[j], calls[i].Snap); r2 == "" && calls[i].Snap.Next == exp[j].Next {
						rule, detail = "order", fmt.Sprintf("delivery %d is expected transaction %d", i, j)
					}
				}
			}
			vs = append(vs, Violation{prop, rule, fmt.Sprintf("delivery %d (unit %d %s): %s", i, exp[i].Unit, h.Units[exp[i].Unit].Desc, detail), att})
			return vs
		}
		if labels {
			if calls[i].Snap.Now != exp[i].Now {
				vs = append(vs, Violation{prop, "chain", fmt.Sprintf("delivery %d: start label %v, expected %v", i, calls[i].Snap.Now, exp[i].Now), att})
				return vs
			}
			if calls[i].Snap.Next != exp[i].Next {
				vs = append(vs, Violation{prop, "end-label", fmt.Sprintf("delivery %d: end label %v, expected %v", i, calls[i].Snap.Next, exp[i].Next), att})
				return vs
			}
		}
	}
	if len(calls) < len(exp) {
		vs = append(vs, Violation{prop, "count", fmt.Sprintf("%d deliveries, expected %d (first missing: unit %d %s)", len(calls), len(exp), exp[len(calls)].Unit, h.Units[exp[len(calls)].Unit].Desc), att})
	} else if len(calls) > len(exp) {
		vs = append(vs, Violation{prop, "extra-call", fmt.Sprintf("%d deliveries, expected %d", len(calls), len(exp)), att})
	}
	return vs
}

// checkPrefix: under faults an attempt may deliver only a prefix, never a
// wrong, partial, duplicated or reordered transaction.
func checkPrefix(prop string, h *History, start Pos, calls []*HandlerCall, att int) []Violation {
	exp, ok := h.Model(start)
	if !ok {
		return nil // the resume-coordinate oracle reports this
	}
	for i, c := range calls {
		if c.Snap == nil {
			return []Violation{{prop, "partial-delivery", fmt.Sprintf("delivery %d is nil", i), att}}
		}
		if i >= len(exp) {
			return []Violation{{prop, "partial-delivery", fmt.Sprintf("delivery %d beyond the %d expected", i, len(exp)), att}}
		}
		if rule, detail := compareTx(exp[i], c.Snap); rule != "" {
			return []Violation{{prop, "partial-delivery", fmt.Sprintf("delivery %d differs from committed transaction (unit %d): %s: %s", i, exp[i].Unit, rule, detail), att}}
		}
		if c.Snap.Next != exp[i].Next {
			return []Violation{{prop, "partial-delivery", fmt.Sprintf("delivery %d end label %v expected %v", i, c.Snap.Next, exp[i].Next), att}}
		}
	}
	return nil
}

func errText(e error) string {
	if e == nil {
		return "<nil>"
	}
	s := e.Error()
	if len(s) > 200 {
		s = s[:200] + "..."
	}
	return s
}

func hasCause(att *AttemptResult, name string) bool {
	for _, c := range att.Causes {
		if c == name {
			return true
		}
	}
	return false
}

func leakText(gs []libGoroutine) string {
	var parts []string
	seen := map[string]int{}
	for _, g := range gs {
		k := fmt.Sprintf("%s@%s[%s]", g.Top, g.Where, g.Role)
		if seen[k] == 0 {
			parts = append(parts, k)
		}
		seen[k]++
	}
	return strings.Join(parts, "; ")
}

// ---------------------------------------------------------------------------
// C05: termination, leaks, Error() never blocks

// cancelSlack: handler calls tolerated after a cancellation. The unchanged code
// leaves its event loop with probability >= 1/2 per event once the context is
// done (Go's select picks uniformly among ready cases), and a transaction is at
// least two events: more than 40 late calls has probability below 2^-80.
const cancelSlack = 40

func checkC05(r *Run) []Violation {
	var vs []Violation
	for i, att := range r.Results {
		if att.StreamPanic != "" {
			vs = append(vs, Violation{"C05", "panic", "Stream panicked: " + firstLine(att.StreamPanic), i})
			continue
		}
		if att.Hang {
			vs = append(vs, Violation{"C05", "stream-hang", fmt.Sprintf("Stream did not return after %v with a fair environment; goroutines: %s", att.Causes, leakText(att.HangDump)), i})
			continue
		}
		for k, c := range att.Calls {
			if !c.InsideStream || c.AfterReturn {
				vs = append(vs, Violation{"C05", "handler-outside-stream", fmt.Sprintf("handler call %d ran outside a Stream call", k), i})
			}
			if c.Overlap {
				vs = append(vs, Violation{"C05", "handler-overlap", fmt.Sprintf("handler call %d overlapped another call", k), i})
			}
		}
		if len(att.Causes) > 0 && att.Causes[0] == "cancel" && att.CauseSeqSet && !att.Plan.NoCancelCtx {
			// A cancelled Stream may still hand over what it was in the middle of, and
			// a fair select may pick a ready event over the cancellation a few times
			// (probability 1/2 or less per event) - not transaction after transaction
			// for as long as the master has something to send.
			late := 0
			for _, c := range att.Calls {
				if c.Seq > att.CauseSeq {
					late++
				}
			}
			if late > cancelSlack {
				vs = append(vs, Violation{"C05", "cancel-ignored", fmt.Sprintf("%d transactions were handed to the handler after the caller's context was cancelled (Stream returned only when the master had nothing more to send)", late), i})
			}
		}
		if att.HadConn && !att.SocketClosed {
			vs = append(vs, Violation{"C05", "socket-not-closed", fmt.Sprintf("after Stream returned (%v) the connection to the master is still open", att.Causes), i})
		}
		if len(att.LeakAfterRet) > 0 {
			g := att.LeakAfterRet[0]
			vs = append(vs, Violation{"C05", "goroutine-leak:" + g.Role, fmt.Sprintf("after Stream returned (%v, reader-holding=%v): %s", att.Causes, att.ReaderHolding, leakText(att.LeakAfterRet)), i})
		}
		if att.ErrorBlocked {
			rule := "error-blocks"
			if !att.HadConn {
				rule = "error-blocks-no-connection"
			}
			vs = append(vs, Violation{"C05", rule, fmt.Sprintf("Error() did not return after attempt ended by %v; goroutines: %s", att.Causes, leakText(att.HangDump)), i})
			continue
		}
		if att.ErrorPanic != "" {
			vs = append(vs, Violation{"C05", "panic", "Error() panicked: " + firstLine(att.ErrorPanic), i})
			continue
		}
		if len(att.LeakAfterErr) > 0 && len(att.LeakAfterRet) == 0 {
			g := att.LeakAfterErr[0]
			vs = append(vs, Violation{"C05", "goroutine-leak:" + g.Role, fmt.Sprintf("after Error(): %s", leakText(att.LeakAfterErr)), i})
		}
	}
	return vs
}

func firstLine(s string) string {
	if i := strings.IndexByte(s, '\n'); i >= 0 {
		return s[:i]
	}
	return s
}

// ---------------------------------------------------------------------------
// C06: the reason a stream ended is reported

func checkC06(r *Run) []Violation {
	var vs []Violation
	for i, att := range r.Results {
		// decode failure inside the history (a value the decoder must reject): if the
		// attempt was not ended by anything else and every byte was delivered, Stream
		// must have returned an error
		if att.Master != nil && len(att.Master.Dumps) > 0 && att.Master.Dumps[0].Served && !att.Hang && !att.StepCapped && att.StreamPanic == "" {
			d := att.Master.Dumps[0]
			if _, poison, ok := r.sc.Hist.ModelP(Pos{d.File, int64(d.Offset)}); ok && poison >= 0 {
				benign := att.Plan.Stop == stopNone || att.Plan.Stop == stopEOF
				for _, c := range att.Causes {
					benign = benign && (c == "cancel" || c == "eof-packet")
				}
				if benign && att.StreamErr == nil && att.PoisonRowsDelivered && att.PacketsDeliv >= att.PacketsTotal {
					vs = append(vs, Violation{"C06", "stream-nil-on-failure", fmt.Sprintf("the stream contains a value that cannot be decoded (unit %d, %s), every packet was delivered, and Stream returned nil", poison, r.sc.Hist.Units[poison].Desc), i})
				}
			}
		}
		// a handler that returned an error, a table lookup that failed: Stream reports
		// it whatever else happened to the attempt (the caller cancelling at the same
		// moment, the network failing behind it)
		if !att.Hang && att.Returned && att.StreamPanic == "" && !att.StepCapped && att.StreamErr == nil {
			for k, c := range att.Calls {
				if c.Returned && c.Verdict != nil && c.InsideStream && !c.AfterReturn {
					vs = append(vs, Violation{"C06", "stream-nil-on-failure", fmt.Sprintf("handler call %d returned %q (causes %v) and Stream returned nil", k+1, c.Verdict.Error(), att.Causes), i})
					break
				}
			}
			for k, mc := range att.MapperCalls {
				if mc.Returned && mc.Verdict == "error" {
					vs = append(vs, Violation{"C06", "stream-nil-on-failure", fmt.Sprintf("table lookup %d (%s.%s) failed (causes %v) and Stream returned nil", k+1, mc.DB, mc.Name, att.Causes), i})
					break
				}
			}
			if len(vs) > 0 {
				return vs
			}
		}
		if att.Hang || att.ErrorBlocked || att.StreamPanic != "" || len(att.Causes) == 0 {
			continue
		}
		if len(att.Causes) > 1 {
			// a parse-side failure that came first must have ended the stream with an
			// error; a later idle-cancel only happens when it did not
			switch att.Causes[0] {
			case "handler-error", "mapper-error", "mapper-miscount", "invalid-event", "unsupported-event":
				if att.StreamErr == nil && att.Causes[1] == "cancel" {
					vs = append(vs, Violation{"C06", "stream-nil-on-failure", fmt.Sprintf("attempt hit %s first, the stream went on until it was cancelled, and Stream returned nil", att.Causes[0]), i})
				}
			}
			continue // overlapping causes: either report is accepted
		}
		cause := att.Causes[0]
		var errRes error
		haveErr := len(att.ErrorResults) > 0
		if haveErr {
			errRes = att.ErrorResults[0]
		}
		switch cause {
		case "handler-error", "mapper-error", "mapper-miscount", "invalid-event", "unsupported-event":
			if att.StreamErr == nil {
				vs = append(vs, Violation{"C06", "stream-nil-on-failure", fmt.Sprintf("attempt ended by %s but Stream returned nil", cause), i})
			}
		case "cancel", "cancel-at-dial", "eof-packet":
			// clean ends: nothing is demanded by the property
		case "fin", "rst", "short-packet", "bad-seq", "read-timeout", "err-packet":
			if att.StreamErr == nil && haveErr && errRes == nil {
				vs = append(vs, Violation{"C06", "error-nil-on-failure", fmt.Sprintf("attempt ended by %s; Stream returned nil and Error() returned nil", cause), i})
			}
			if cause == "err-packet" && att.StreamErr == nil && haveErr && errRes != nil {
				if !strings.Contains(errRes.Error(), att.Plan.Stream.ErrMsg) {
					vs = append(vs, Violation{"C06", "err-message-lost", fmt.Sprintf("master sent error %d %q; Error() = %s", att.Plan.Stream.ErrCode, att.Plan.Stream.ErrMsg, errText(errRes)), i})
				}
			}
		case "dial-error", "handshake-fin", "handshake-garbage", "auth-error", "set-error", "dump-write-error":
			if att.StreamErr == nil && haveErr && errRes == nil {
				vs = append(vs, Violation{"C06", "error-nil-on-failure", fmt.Sprintf("attempt failed in the connection phase (%s); Stream returned nil and Error() returned nil", cause), i})
			}
		}
	}
	return vs
}

// ---------------------------------------------------------------------------
// C07: the handshake asks for exactly the configured stream

func checkC07(r *Run) []Violation {
	var vs []Violation
	h := r.sc.Hist
	if bl := r.bystanderLog; bl != nil && len(bl.Dumps) > 0 {
		// the other Streamer of the process asked its own master for its own stream
		if d := bl.Dumps[0]; d.ServerID != r.sc.ServerID || d.File != h.Files[0].Name || d.Offset != 4 {
			vs = append(vs, Violation{"C07", "server-id", fmt.Sprintf("a second Streamer (same server id %d, other master, position %s:4) sent the request %s", r.sc.ServerID, h.Files[0].Name, d.String()), 0})
		}
	}
	var acceptedUnits []int // units accepted so far, in order
	acceptedBefore := 0     // ... at the start of the previous attempt
	var alts []int          // other acceptable prefixes (after a callback panicked through Stream)
	expAll, _ := h.Model(r.sc.Start)
	for i, att := range r.Results {
		if att.Master != nil && len(att.Master.Dumps) == 0 && att.HadConn && !att.Plan.Stop.connPhase() && len(att.Causes) == 0 && !att.Hang && att.Returned {
			// the connection was established, nothing the simulator did ended the
			// attempt, and still no dump request reached the master
			vs = append(vs, Violation{"C07", "dump-count", fmt.Sprintf("the attempt connected and authenticated but never sent a binlog-dump request (position %v); Stream returned %s", expectedRequest(r, i), errText(att.StreamErr)), i})
		}
		if att.Returned && !att.Dialed && len(att.Causes) == 0 && !att.Hang && !att.StepCapped {
			// nothing was wrong with the call (live context, reachable master) and it
			// came back without even opening a connection
			vs = append(vs, Violation{"C07", "dump-count", fmt.Sprintf("the Stream call returned without contacting the master: no connection, no binlog-dump request (position %v); Stream returned %s", expectedRequest(r, i), errText(att.StreamErr)), i})
		}
		if att.Master != nil && len(att.Master.Dumps) > 0 {
			m := att.Master
			d := m.Dumps[0]
			if len(m.Dumps) != 1 {
				vs = append(vs, Violation{"C07", "dump-count", fmt.Sprintf("%d dump requests on one connection", len(m.Dumps)), i})
			}
			if !hasChecksumSet(m.Queries[:minInt(d.QueriesSeen, len(m.Queries))]) {
				rule := "no-checksum-set"
				if hasChecksumSet(m.Queries) {
					rule = "set-after-dump"
				}
				vs = append(vs, Violation{"C07", rule, fmt.Sprintf("queries before the dump request: %q", m.Queries[:minInt(d.QueriesSeen, len(m.Queries))]), i})
			}
			if d.Flags&1 != 0 {
				vs = append(vs, Violation{"C07", "dump-flags", fmt.Sprintf("non-blocking flag set (%#x)", d.Flags), i})
			}
			if d.ServerID != r.sc.ServerID {
				vs = append(vs, Violation{"C07", "server-id", fmt.Sprintf("dump request carries server id %d, configured %d", d.ServerID, r.sc.ServerID), i})
			}
			// other commands (ping, register-slave, a later COM_QUIT) are not the
			// property's business; only a second dump request is ("exactly one")
			req := Pos{d.File, int64(d.Offset)}
			if i == 0 || att.Plan.FreshStreamer && len(acceptedUnits) == 0 {
				if req != r.sc.Start {
					rule := "offset"
					if req.File != r.sc.Start.File {
						rule = "file"
					}
					vs = append(vs, Violation{"C07", rule, fmt.Sprintf("first attempt requested %v, SetBinlogPosition was %v", req, r.sc.Start), i})
				}
			} else {
				// later attempts: the stored resume position - any coordinate that is
				// equivalent for the accepted prefix
				var remaining []int
				for _, e := range expAll[minInt(len(acceptedUnits), len(expAll)):] {
					remaining = append(remaining, e.Unit)
				}
				ok := h.ResumeOK(req, remaining)
				// (alts: the application's own callback panicked *through* an earlier
				// Stream call: what the Streamer remembers of that call is not specified.
				// Resuming where that call had started is as good as resuming after what
				// it accepted, until a later call has asked for a dump.)
				for _, alt := range alts {
					if ok {
						break
					}
					var before []int
					for _, e := range expAll[minInt(alt, len(expAll)):] {
						before = append(before, e.Unit)
					}
					if h.ResumeOK(req, before) {
						ok = true
						acceptedUnits = acceptedUnits[:minInt(alt, len(acceptedUnits))]
					}
				}
				alts = nil
				if !ok {
					rule := "offset"
					if h.fileIndex(req.File) < 0 {
						rule = "file"
					}
					vs = append(vs, Violation{"C07", rule, fmt.Sprintf("attempt %d requested %v which is not a resume point after %d accepted transactions", i, req, len(acceptedUnits)), i})
				}
			}
		}
		acceptedBefore = len(acceptedUnits)
		for _, c := range att.Calls {
			if c.Returned && (c.Verdict == nil || c.Skipped) && c.Snap != nil {
				acceptedUnits = append(acceptedUnits, h.unitByNext(c.Snap.Next))
			}
		}
		if att.EnvPanicked {
			alts = append(alts, acceptedBefore)
		}
	}
	return vs
}

// ---------------------------------------------------------------------------
// C04: exactly once across failures and restarts

func checkC04(r *Run) []Violation {
	var vs []Violation
	h := r.sc.Hist
	expAll, ok := h.Model(r.sc.Start)
	if !ok {
		return []Violation{{"C04", "harness", "bad start", 0}}
	}
	var acc []int
	completed := true
	for i, att := range r.Results {
		if att.Hang || att.ErrorBlocked || att.StreamPanic != "" {
			completed = false
			break
		}
		// resume coordinate requested by this attempt
		if i > 0 && att.Master != nil && len(att.Master.Dumps) > 0 && !att.Plan.FreshStreamer {
			d := att.Master.Dumps[0]
			req := Pos{d.File, int64(d.Offset)}
			var remaining []int
			for _, e := range expAll[minInt(len(acc), len(expAll)):] {
				remaining = append(remaining, e.Unit)
			}
			if !h.ResumeOK(req, remaining) {
				vs = append(vs, Violation{"C04", "resume-coordinate", fmt.Sprintf("after %d accepted transactions (previous attempt ended by %v) the streamer asked for %v, which is not the commit boundary that follows the last accepted transaction (expected e.g. %v)", len(acc), r.Results[i-1].Causes, req, expectedResume(h, r.sc.Start, expAll, len(acc))), i})
				return vs
			}
		}
		for _, c := range att.Calls {
			if !(c.Returned && (c.Verdict == nil || c.Skipped)) || c.Snap == nil {
				continue
			}
			u := h.unitByNext(c.Snap.Next)
			k := len(acc)
			switch {
			case k < len(expAll) && u == expAll[k].Unit:
				if rule, detail := compareTx(expAll[k], c.Snap); rule != "" {
					vs = append(vs, Violation{"C04", "lost", fmt.Sprintf("accepted transaction %d (unit %d) is not the committed transaction: %s: %s", k, u, rule, detail), i})
					return vs
				}
				acc = append(acc, u)
			default:
				dup := false
				for _, a := range acc {
					if a == u && u >= 0 {
						dup = true
					}
				}
				switch {
				case dup:
					vs = append(vs, Violation{"C04", "duplicated", fmt.Sprintf("transaction of unit %d (end %v) accepted twice (second time in attempt %d)", u, c.Snap.Next, i), i})
				case u >= 0 && k < len(expAll):
					vs = append(vs, Violation{"C04", "lost", fmt.Sprintf("attempt %d delivered the transaction of unit %d (end %v) but the next unaccepted one is unit %d (end %v): a committed transaction was skipped", i, u, c.Snap.Next, expAll[k].Unit, expAll[k].Next), i})
				default:
					vs = append(vs, Violation{"C04", "reordered", fmt.Sprintf("attempt %d delivered an unexpected transaction ending at %v", i, c.Snap.Next), i})
				}
				return vs
			}
		}
	}
	if completed && len(r.Results) == len(r.sc.Attempts) && len(r.Results) > 0 {
		last := r.Results[len(r.Results)-1]
		cleanLast := last.Plan.Stop == stopNone || (last.Plan.Stop == stopEOF && last.Plan.Stream.AtPacket >= 1<<30)
		if cleanLast && len(acc) != len(expAll) {
			vs = append(vs, Violation{"C04", "lost", fmt.Sprintf("after the final fault-free attempt %d of %d committed transactions were accepted", len(acc), len(expAll)), len(r.Results) - 1})
		}
	}
	return vs
}

func expectedResume(h *History, start Pos, expAll []*ExpTx, k int) Pos {
	if k == 0 {
		return start
	}
	return expAll[k-1].Next
}

// ---------------------------------------------------------------------------
// C17: malformed packets end the stream with an error, without panic or
// partial delivery, resume position intact (resume checked through C04's rule)

func checkC17(r *Run) []Violation {
	var vs []Violation
	h := r.sc.Hist
	expAll, _ := h.Model(r.sc.Start)
	accepted := 0
	for i, att := range r.Results {
		if att.StreamPanic != "" {
			vs = append(vs, Violation{"C17", "panic", firstLine(att.StreamPanic), i})
			return vs
		}
		if att.Plan.Stream.GateAccepted {
			// a bare header the gate accepts: the outcome of this attempt and of what
			// follows is not specified; only the absence of a panic is (checked above,
			// and by the process watchdog for panics on library goroutines)
			return vs
		}
		// the malformed packet was the first thing that happened to the attempt; if the
		// stream is only ended later by the idle-cancel fallback it survived the packet
		if att.Plan.Stop == stopInvalidEvent && len(att.Causes) >= 1 && att.Causes[0] == "invalid-event" && att.Hang {
			// every byte was delivered, the environment was fair, and the stream is
			// still waiting for more events: the malformed packet did not end it
			vs = append(vs, Violation{"C17", "accepted-malformed", fmt.Sprintf("a malformed packet (%d bytes: %x) was injected at packet %d and the stream went on as if nothing had happened", len(att.Plan.Stream.Invalid), clip(att.Plan.Stream.Invalid, 40), att.Plan.Stream.AtPacket), i})
			return vs
		}
		if att.Plan.Stop == stopInvalidEvent && len(att.Causes) >= 1 && att.Causes[0] == "invalid-event" && !att.Hang && !att.StepCapped {
			if att.StreamErr == nil {
				vs = append(vs, Violation{"C17", "accepted-malformed", fmt.Sprintf("a malformed packet (%d bytes: %x) was injected at packet %d and Stream returned nil", len(att.Plan.Stream.Invalid), clip(att.Plan.Stream.Invalid, 40), att.Plan.Stream.AtPacket), i})
			}
		}
		// "accepts exactly": a stream in which nothing malformed has arrived (yet) must
		// not end with an error - the gate would be rejecting a well-formed event
		onlyBenign := true
		for _, c := range att.Causes {
			onlyBenign = onlyBenign && (c == "cancel" || c == "eof-packet")
		}
		if onlyBenign && att.Returned && !att.Hang && !att.StepCapped && att.StreamErr != nil && att.HadConn && att.Master != nil && len(att.Master.Dumps) > 0 && att.Master.Dumps[0].Served {
			vs = append(vs, Violation{"C17", "rejected-well-formed", fmt.Sprintf("no malformed packet had been delivered (causes %v, %d of %d packets delivered) and Stream returned %s", att.Causes, att.PacketsDeliv, att.PacketsTotal, errText(att.StreamErr)), i})
			return vs
		}
		if att.Master != nil && len(att.Master.Dumps) > 0 {
			d := att.Master.Dumps[0]
			if d.Served {
				if v := checkPrefix("C17", h, Pos{d.File, int64(d.Offset)}, att.Calls, i); v != nil {
					vs = append(vs, v...)
					return vs
				}
			}
			if i > 0 && r.Results[i-1].Plan.Stop == stopInvalidEvent {
				var remaining []int
				for _, e := range expAll[minInt(accepted, len(expAll)):] {
					remaining = append(remaining, e.Unit)
				}
				if !h.ResumeOK(Pos{d.File, int64(d.Offset)}, remaining) {
					vs = append(vs, Violation{"C17", "resume-coordinate", fmt.Sprintf("after a malformed packet the streamer resumed at %s:%d with %d transactions accepted", d.File, d.Offset, accepted), i})
					return vs
				}
			}
		}
		for _, c := range att.Calls {
			if c.Returned && (c.Verdict == nil || c.Skipped) {
				accepted++
			}
		}
	}
	return vs
}

func clip(b []byte, n int) []byte {
	if len(b) > n {
		return b[:n]
	}
	return b
}

// ---------------------------------------------------------------------------
// C08: stability / aliasing

func checkC08(r *Run) []Violation {
	var vs []Violation
	for _, s := range r.Stability {
		vs = append(vs, Violation{"C08", "mutated-after-delivery", s, 0})
	}
	for _, s := range r.LateScribble {
		vs = append(vs, Violation{"C08", "scribble-propagated", s, 0})
	}
	for _, c := range r.calls {
		if c.ScribbleNote != "" {
			vs = append(vs, Violation{"C08", "scribble-propagated", c.ScribbleNote, c.Attempt})
		}
		if c.MarshalNote != "" {
			vs = append(vs, Violation{"C08", "mutated-after-delivery", c.MarshalNote, c.Attempt})
		}
	}
	return vs
}

// expectedRequest describes (for messages only) what the attempt should have asked for.
func expectedRequest(r *Run, i int) string {
	if i == 0 {
		return r.sc.Start.String()
	}
	if r.haveAccepted {
		return "the stored resume position"
	}
	return r.sc.Start.String()
}
