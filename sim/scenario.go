package verifsim

// Scenario generators: one per property family. All choices come from the tape.

import (
	"fmt"
	"hash/crc32"
	"strings"
	"time"
)

func baseOpts() GenOpts {
	o := GenOpts{MaxUnits: 10, MinUnits: 1, MaxFiles: 3, MaxStmts: 3, MaxRows: 4, MaxCols: 10, MaxTables: 3,
		IgnorableGap: 6, Rare: true, HeaderFlags: true, Bulk: 400}
	o.UnitWeights = [numUnitKinds]int{uTxXID: 6, uTxCommit: 3, uDDL: 2, uAutoRows: 2, uStmtDML: 1,
		uTxRollback: 1, uUnknownStmt: 1, uIgnorable: 1, uRotate: 1}
	o.Prof = genProfile{MaxStr: 24}
	return o
}

func smallOpts() GenOpts {
	o := baseOpts()
	o.MaxUnits, o.MinUnits = 5, 2
	o.MaxStmts, o.MaxRows, o.MaxCols, o.MaxTables = 2, 2, 4, 2
	o.MaxFiles = 2
	o.Prof = genProfile{MaxStr: 10, Kinds: []colKind{kTiny, kLong, kLongLong, kVarchar, kChar, kDecimal, kTimestamp2, kBlob, kEnum}}
	return o
}

func genPolicy(s *Stream, p *AttemptPlan) {
	p.Pacing = s.Weighted(2, 2, 2)
	p.Seg = s.Weighted(1, 3, 2, 1, 3)
	p.StallAfterStop = s.Chance(1, 3)
	p.ImmediateError = s.Chance(1, 2)
	p.LogYield = s.Chance(1, 3)
	p.DebugYield = s.Chance(1, 6)
	p.ForeignCtx = s.Chance(1, 4)
	p.WriteYield = s.Chance(1, 6)
	p.SkipErrorCalls = s.Chance(1, 10) // a caller that goes straight to the next Stream call
	if s.Chance(1, 8) {
		p.IdleAt = s.N(30)
		p.IdleFor = []time.Duration{11 * time.Minute, time.Hour, 25 * time.Hour, 40 * time.Second}[s.N(4)]
	}
	if s.Chance(1, 8) {
		p.SlowHandler = []time.Duration{35 * time.Second, 65 * time.Second, 10 * time.Minute}[s.N(3)]
	}
	p.Checkpoints = s.Chance(1, 6)
	p.OpenCk = s.Weighted(3, 2, 1)
	p.SetErrVariant = s.Weighted(2, 1, 1)
}

func pickStart(s *Stream, h *History, atUnitBoundary bool) Pos {
	bs := h.Boundaries()
	// only boundaries that do not split a unit
	var ok []Pos
	for _, b := range bs {
		if _, fine := h.Model(b); fine {
			ok = append(ok, b)
		}
	}
	if len(ok) == 0 {
		return Pos{h.Files[0].Name, 4}
	}
	// smaller index = earlier = more to deliver; index 0 preferred by shrinking
	st := ok[0]
	if !s.Chance(1, 2) {
		st = ok[s.N(len(ok))]
	}
	if st.File == h.Files[0].Name && s.Chance(1, 12) {
		st.File = "" // "the master's first binlog": legal in COM_BINLOG_DUMP and for SetBinlogPosition
	}
	return st
}

// earliestStart is the first position of the history a dump can start from.
func earliestStart(h *History) Pos {
	for _, b := range h.Boundaries() {
		if _, fine := h.Model(b); fine {
			return b
		}
	}
	return Pos{h.Files[0].Name, 4}
}

func genServerID(s *Stream) uint32 {
	return []uint32{1001, 0, 1, 1<<31 - 1, 1 << 31, 1<<32 - 1, uint32(7 + s.N(1<<20))}[s.Weighted(3, 1, 1, 1, 1, 1, 2)]
}

func cleanAttempt(s *Stream, pol *Stream) AttemptPlan {
	p := AttemptPlan{Stop: stopNone}
	genPolicy(pol, &p)
	if s.Chance(1, 2) {
		p.Stop = stopEOF
		p.Stream = StreamPlan{Kind: stopEOF, AtPacket: 1 << 30, ThenFIN: s.Chance(1, 2)}
	}
	p.ErrorCalls = 1 + s.N(3)
	return p
}

// ---------------------------------------------------------------------------
// fault-free families (C01, C02, C03, C08, C15)

func genScenarioC01(t *Tape, thorough bool) *Scenario {
	hs := t.S("hist")
	o := baseOpts()
	o.Prof.AllowJSON = true
	o.TableIDReuse = t.S("cfg").Chance(1, 3)
	o.WideTables = true
	if thorough {
		o.MaxUnits = 12
		o.MaxCols = 12
		o.MaxRows = 5
		o.MaxStmts = 4
		o.MaxTables = 4
		if t.S("cfg").Chance(1, 30) {
			o.Prof.BigChance, o.Prof.BigMax = 6, 70000
		}
		if t.S("cfg").Chance(1, 400) {
			n := 1
			o.Prof.JumboLeft = &n
			o.Prof.Kinds = []colKind{kBlob, kLong, kVarchar}
			o.MaxUnits, o.MaxRows = 4, 2
		}
	}
	h := genHistoryFor(t, hs, &o)
	cs := t.S("cfg")
	sc := &Scenario{Hist: h, Start: pickStart(cs, h, true), ServerID: replicaIDOf(t)}
	sc.Attempts = []AttemptPlan{cleanAttempt(cs, t.S("policy"))}
	return sc
}

func genScenarioC02(t *Tape, thorough bool, forced []unitKind) *Scenario {
	hs := t.S("hist")
	o := smallOpts()
	o.MaxUnits, o.MinUnits = 8, 1
	o.MaxFiles = 3
	o.CaseMix = true
	o.IgnorableGap = 2
	o.UnitWeights = [numUnitKinds]int{uTxXID: 3, uTxCommit: 3, uDDL: 2, uAutoRows: 2, uStmtDML: 2,
		uTxRollback: 3, uUnknownStmt: 2, uIgnorable: 2, uRotate: 1}
	var h *History
	if forced != nil {
		h = genHistoryForced(hs, &o, forced)
	} else {
		h = genHistoryFor(t, hs, &o)
	}
	cs := t.S("cfg")
	sc := &Scenario{Hist: h, Start: pickStart(cs, h, true), ServerID: replicaIDOf(t)}
	a := cleanAttempt(cs, t.S("policy"))
	if cs.Chance(1, 2) {
		a.Pacing = 1
	}
	a.Stream.Heartbeat = []int{0, 2, 4}[cs.N(3)]
	a.Stream.HeartbeatAnywhere = cs.Chance(1, 2)
	a.Stream.hbSeed = cs.U64()
	if a.Stream.Kind == stopNone {
		a.Stream.Kind = stopNone
	}
	sc.Attempts = []AttemptPlan{a}
	if forced == nil && cs.Chance(1, 5) {
		// the handler refuses one transaction, the application steps over it
		// (SetBinlogPosition to the refused transaction's end label) and streams on:
		// the grouping of what follows must not depend on how the first call ended
		exp, _ := h.Model(sc.Start)
		var f AttemptPlan
		genPolicy(t.S("policy"), &f)
		fillFault(cs, h, stopHandlerErr, cs.N(len(exp)+1), &f)
		f.Stream.Heartbeat, f.Stream.HeartbeatAnywhere, f.Stream.hbSeed = a.Stream.Heartbeat, a.Stream.HeartbeatAnywhere, a.Stream.hbSeed
		f.ErrorCalls = 1
		a.SkipRefused = true
		sc.Attempts = []AttemptPlan{f, a}
	}
	return sc
}

// genHistoryForced builds a history with exactly the given unit kinds.
func genHistoryForced(s *Stream, o *GenOpts, kinds []unitKind) *History {
	h := &History{nextTS: 1500000000 + uint32(s.N(100000000))}
	h.Cfg = genHistCfg(s, o)
	ntab := 1 + s.N(o.MaxTables)
	for i := 0; i < ntab; i++ {
		t := genTable(s, i, o)
		t.ID = uint64(200 + i)
		h.Tables = append(h.Tables, t)
	}
	oddIdentifiers(s, h.Tables)
	b := &builder{h: h, s: s, o: o, unit: -1}
	b.startFile(fileName(0, s), 0)
	for _, k := range kinds {
		if o.IgnorableGap > 0 && s.Chance(1, o.IgnorableGap) && k != uIgnorable {
			b.addUnit(uIgnorable)
		}
		b.addUnit(k)
	}
	return h
}

func genScenarioC03(t *Tape, thorough bool) *Scenario {
	hs := t.S("hist")
	o := baseOpts()
	o.BigOffsets = true
	o.UnitWeights[uRotate] = 3
	o.UnitWeights[uTxRollback] = 1
	if !thorough {
		o.MaxCols = 6
	}
	h := genHistoryFor(t, hs, &o)
	cs := t.S("cfg")
	sc := &Scenario{Hist: h, Start: pickStart(cs, h, true), ServerID: replicaIDOf(t)}
	sc.Scribble = cs.Chance(1, 6) // a consumer that overwrites what it received, labels included
	if cs.Chance(1, 3) {
		// replica crash at an arbitrary point of the stream (the Streamer is abandoned),
		// then a new Streamer starts from the last label the handler recorded
		npk := packetCount(h, sc.Start)
		var p AttemptPlan
		genPolicy(t.S("policy"), &p)
		fillFault(t.S("fault"), h, stopCancel, cs.N(npk+1), &p)
		c := cleanAttempt(cs, t.S("policy"))
		c.FreshStreamer = true
		if cs.Chance(1, 3) {
			// no crash: the same Streamer is re-pointed to one of the end labels it has
			// delivered (an exact resume point by this property) and streams again; the
			// first call ended at an arbitrary point or with a refused transaction
			c.FreshStreamer, c.RewindTo = false, true
			if cs.Chance(1, 2) {
				exp, _ := h.Model(sc.Start)
				p = AttemptPlan{}
				genPolicy(t.S("policy"), &p)
				fillFault(t.S("fault"), h, stopHandlerErr, cs.N(len(exp)+1), &p)
			}
		}
		sc.Attempts = []AttemptPlan{p, c}
		return sc
	}
	sc.Attempts = []AttemptPlan{cleanAttempt(cs, t.S("policy"))}
	return sc
}

func genScenarioC08(t *Tape, thorough bool) *Scenario {
	hs := t.S("hist")
	o := baseOpts()
	o.MaxUnits = 8
	o.UnitWeights[uTxRollback] = 2
	o.Prof.ZeroTSPct = 50
	o.Prof.Kinds = []colKind{kBlob, kVarchar, kChar, kTimestampOld, kTimestamp2, kLong, kDecimal, kBit, kSet, kGeometry, kDatetime2, kYear, kTime2, kDate, kEnum, kDouble}
	o.Prof.AllowJSON = true
	cs := t.S("cfg")
	// packet sizes around the driver's buffer (4096) and, sometimes, its cache limit
	switch cs.Weighted(2, 4, 1) {
	case 0:
	case 1:
		o.Prof.BigChance, o.Prof.BigMax = 4, 4600
	case 2:
		o.Prof.BigChance, o.Prof.BigMax = 5, 270000
		o.MaxUnits = 5
	}
	o.TableIDReuse = cs.Chance(1, 2)     // tables re-announced with other column types, ids taken over
	o.WideTables, o.WideChance = true, 4 // tables beyond 64 columns, some with all their by-reference columns behind the 64th
	h := genHistoryFor(t, hs, &o)
	sc := &Scenario{Hist: h, Start: pickStart(cs, h, true), ServerID: 1001}
	a := cleanAttempt(cs, t.S("policy"))
	a.Pacing = cs.Weighted(3, 1, 2) // mostly far ahead: later packets arrive while the handler holds earlier ones
	sc.Attempts = []AttemptPlan{a}
	if cs.Chance(1, 5) {
		// the handler keeps a transaction it refuses; the stream is torn down around
		// it and a second call delivers it again
		exp, _ := h.Model(sc.Start)
		var f AttemptPlan
		genPolicy(t.S("policy"), &f)
		fillFault(cs, h, stopHandlerErr, cs.N(len(exp)+1), &f)
		f.EnvCancels, f.NoCancelCtx, f.ErrorCalls = false, false, 1
		f.Pacing = a.Pacing
		sc.Attempts = []AttemptPlan{f, a}
	}
	return sc
}

func genScenarioC15(t *Tape, thorough bool) *Scenario {
	hs := t.S("hist")
	o := baseOpts()
	o.MaxTables = 5
	o.MaxStmts = 4
	o.MaxCols = 8
	o.WideTables = true
	o.TableIDReuse = true
	o.AliasMapper = true
	o.CountChange = true
	o.UnitWeights = [numUnitKinds]int{uTxXID: 6, uTxCommit: 2, uDDL: 1, uAutoRows: 3, uStmtDML: 0,
		uTxRollback: 1, uUnknownStmt: 0, uIgnorable: 1, uRotate: 1}
	o.CarryMaps = true
	h := genHistoryFor(t, hs, &o)
	cs := t.S("cfg")
	sc := &Scenario{Hist: h, Start: pickStart(cs, h, true), ServerID: 1001}
	if h.Cfg.CarryMaps {
		// rows events may rely on a table map of an earlier transaction: one attempt, from the
		// first position of the history (a later start or a resumed attempt would not have seen it)
		sc.Start = earliestStart(h)
		sc.Attempts = append(sc.Attempts, cleanAttempt(cs, t.S("policy")))
		return sc
	}
	if cs.Chance(1, 3) {
		// a mapper fault attempt first, then a clean one
		p := AttemptPlan{Stop: stopMapperMiscount, CallIndex: 1 + cs.N(3), MiscountDelta: []int{1, -1, 2, -3, 7}[cs.N(5)]}
		if cs.Chance(1, 3) {
			p.Stop = stopMapperErr
		}
		genPolicy(t.S("policy"), &p)
		sc.Attempts = append(sc.Attempts, p)
	}
	sc.Attempts = append(sc.Attempts, cleanAttempt(cs, t.S("policy")))
	return sc
}

// ---------------------------------------------------------------------------
// fault families (C04, C05, C06, C07, C17)

// sentinelMessages equal or contain the texts of errors the library and the
// driver use internally to classify how a stream ended; a master (or a proxy
// in front of it) may send any text.
var sentinelMessages = []string{"context canceled", "rpc error: code = Canceled desc = context canceled",
	"context deadline exceeded", "stream reached EOF", "EOF", "unexpected EOF", "invalid connection",
	"driver: bad connection", "commands out of sync. You can't run this command now", "busy buffer", "<nil>",
	"readBinlogEvent reach end oriErr: stream reached EOF"}

var errMessages = []string{"Could not find first log file name in binary log index file",
	"binlog truncated in the middle of event; consider out of disk space on master",
	"Slave has more GTIDs than the master has", "", "x", "log event entry exceeded max_allowed_packet; Increase max_allowed_packet on master",
	"A slave with the same server_uuid/server_id as this slave has connected to the master; the first event 'mysql-bin.000001' at 4, the last event read from './mysql-bin.000001' at 120, the last byte read from './mysql-bin.000001' at 120.",
	"A slave with the same server_uuid as this slave has connected to the master",
	"Client requested master to start replication from position > file size",
	"Slave can not handle replication events with the checksum that master is configured to log; the first event 'mysql-bin.000001' at 4",
	"The slave is connecting using CHANGE MASTER TO MASTER_AUTO_POSITION = 1, but the master has purged binary logs containing GTIDs that the slave requires.",
	"Misconfigured master - server id was not set", "Binary log is not open", "Query execution was interrupted", "Server shutdown in progress"}

func genErrMsg(s *Stream) string {
	switch s.Weighted(3, 2, 2) {
	case 0:
		return errMessages[s.N(len(errMessages))]
	case 2:
		return sentinelMessages[s.N(len(sentinelMessages))]
	default:
		n := s.N(200)
		if s.Chance(1, 10) {
			n = 400 + s.N(112)
		}
		b := s.Bytes(n)
		for i := range b {
			if b[i] == 0 {
				b[i] = 1
			}
		}
		return string(b)
	}
}

// invalidPayload draws a malformed event payload (fails the validity
// predicate: fewer than 19 bytes, or a length field that differs from the
// buffer length).
func invalidPayload(s *Stream, h *History) []byte {
	p := invalidPayloadRaw(s, h)
	if len(p) >= 9 && h.replicaID != 0 && s.Chance(1, 3) {
		// the server-id field of the malformed packet names the replica itself
		p[5], p[6], p[7], p[8] = byte(h.replicaID), byte(h.replicaID>>8), byte(h.replicaID>>16), byte(h.replicaID>>24)
	}
	if len(p) >= 19 && s.Chance(1, 6) {
		// header fields that make the packet look like one of the dump thread's own
		// fabrications: next_position 0 and the artificial / ignorable / in-use flags
		p[13], p[14], p[15], p[16] = 0, 0, 0, 0
		p[17], p[18] = []byte{0x20, 0x20, 0x80, 0x01, 0xa0, 0xff}[s.N(6)], 0
		if s.Chance(1, 3) {
			p[0], p[1], p[2], p[3] = 0, 0, 0, 0 // timestamp 0 as well
		}
	}
	if len(p) >= 23 && s.Chance(1, 5) {
		// arrived "intact": the last four bytes are the CRC32 of the rest
		c := crc32.ChecksumIEEE(p[:len(p)-4])
		p[len(p)-4], p[len(p)-3], p[len(p)-2], p[len(p)-1] = byte(c), byte(c>>8), byte(c>>16), byte(c>>24)
	}
	// whatever the class, the payload must fail the validity predicate
	if len(p) >= 19 {
		if l := uint32(p[9]) | uint32(p[10])<<8 | uint32(p[11])<<16 | uint32(p[12])<<24; l == uint32(len(p)) {
			p[9] ^= 1
		}
	}
	return p
}

func invalidPayloadRaw(s *Stream, h *History) []byte {
	pickEvent := func() []byte {
		f := h.Files[s.N(len(h.Files))]
		return append([]byte(nil), f.Events[s.N(len(f.Events))].Raw...)
	}
	setLen := func(b []byte, v uint32) {
		if len(b) >= 13 {
			b[9], b[10], b[11], b[12] = byte(v), byte(v>>8), byte(v>>16), byte(v>>24)
		}
	}
	var p []byte
	if s.Chance(1, 8) {
		// surplus bytes in FRONT of a complete event (e.g. a semi-sync header 0xef <flag>)
		e := pickEvent()
		pre := s.Bytes(1 + s.N(4))
		if s.Chance(1, 2) {
			pre = []byte{0xef, byte(s.N(2))}
		}
		return append(pre, e...)
	}
	if s.Chance(1, 150) {
		// a truncated event that fills a MySQL packet completely (payload 2^24-1
		// bytes): the transport layer sends an empty follow-up packet
		n := 1<<24 - 2
		p := make([]byte, n)
		copy(p, s.Bytes(64))
		l := uint32(n + 1 + s.N(200))
		p[4] = byte(2 + s.N(30))
		p[9], p[10], p[11], p[12] = byte(l), byte(l>>8), byte(l>>16), byte(l>>24)
		return p
	}
	if s.Chance(1, 6) {
		// the length field is the real length with one byte copied over another,
		// two bytes swapped or one bit flipped; a third of these are >= 64 KiB so
		// that three of the four length bytes are in play
		n := 19 + s.N(300)
		switch s.N(3) {
		case 1:
			n = 256 + s.N(2000)
		case 2:
			n = 65536 + s.N(6000) + 256*s.N(3)
		}
		p := s.Bytes(n)
		L := [4]byte{byte(n), byte(n >> 8), byte(n >> 16), byte(n >> 24)}
		for tries := 0; tries < 8; tries++ {
			M := L
			switch s.N(3) {
			case 0:
				i, j := s.N(4), s.N(4)
				M[i] = L[j]
			case 1:
				i, j := s.N(4), s.N(4)
				M[i], M[j] = L[j], L[i]
			case 2:
				M[s.N(4)] ^= 1 << uint(s.N(8))
			}
			if M != L {
				L = M
				break
			}
		}
		if L == [4]byte{byte(n), byte(n >> 8), byte(n >> 16), byte(n >> 24)} {
			L[3] ^= 1
		}
		p[9], p[10], p[11], p[12] = L[0], L[1], L[2], L[3]
		return p
	}
	if s.Chance(1, 10) {
		// 13..18 bytes whose length field is right: complete in the fields all binlog
		// versions share, short of the 19-byte header; typed like the events that may
		// come before the format description
		n := 13 + s.N(6)
		p := s.Bytes(n)
		p[4] = []byte{4, 15, 4, 15, 2, 16, byte(s.N(256))}[s.N(7)]
		setLen(p, uint32(n))
		return p
	}
	switch s.Weighted(2, 3, 3, 3, 2, 2, 2, 1) {
	case 0: // empty event
		p = []byte{}
	case 1: // 1..18 bytes
		p = s.Bytes(1 + s.N(18))
	case 2: // well-formed event truncated
		e := pickEvent()
		p = e[:s.N(len(e))]
	case 3: // well-formed event extended
		e := pickEvent()
		if s.Chance(1, 3) {
			// ... by one or two further complete events (a relay that glued packets together)
			p = append(e, pickEvent()...)
			if s.Chance(1, 3) {
				p = append(p, pickEvent()...)
			}
		} else {
			p = append(e, s.Bytes(1+s.N(8))...)
		}
	case 4: // exactly a header with a wrong length field
		p = s.Bytes(19)
		setLen(p, []uint32{0, 18, 20, 1<<32 - 1, uint32(s.N(1 << 16))}[s.N(5)])
		if l := uint32(p[9]) | uint32(p[10])<<8 | uint32(p[11])<<16 | uint32(p[12])<<24; l == 19 {
			setLen(p, 20)
		}
	case 5: // length field off by one / zero / max on a real event
		e := pickEvent()
		l := uint32(len(e))
		setLen(e, []uint32{l - 1, l + 1, 0, 1<<32 - 1, 18}[s.N(5)])
		p = e
	case 6: // garbage 19..64
		p = s.Bytes(19 + s.N(46))
		if l := uint32(p[9]) | uint32(p[10])<<8 | uint32(p[11])<<16 | uint32(p[12])<<24; l == uint32(len(p)) {
			p[9] ^= 1
		}
	case 7: // longer garbage
		p = s.Bytes(65 + s.N(3000))
		if l := uint32(p[9]) | uint32(p[10])<<8 | uint32(p[11])<<16 | uint32(p[12])<<24; l == uint32(len(p)) {
			p[9] ^= 1
		}
	}
	return p
}

// faultKinds lists the stop causes of the matrix in the order of the property text.
var faultKinds = []stopKind{stopFIN, stopRST, stopShortPacket, stopBadSeq, stopERR, stopEOF, stopCancel,
	stopHandlerErr, stopMapperErr, stopMapperMiscount, stopUnsupportedEvent, stopInvalidEvent}

var connFaultKinds = []stopKind{stopDialErr, stopHandshakeFIN, stopHandshakeGarbage, stopAuthErr, stopSetErr,
	stopDumpWriteErr, stopCancelInHandshake, stopCancelAtDial}

// fillFault completes a fault attempt of the given kind with tape-drawn details.
func fillFault(s *Stream, h *History, kind stopKind, at int, p *AttemptPlan) {
	p.Stop = kind
	p.ErrorCalls = 1 + s.N(3)
	switch kind {
	case stopFIN, stopRST:
		p.Stream = StreamPlan{Kind: kind, AtPacket: at}
	case stopShortPacket:
		p.Stream = StreamPlan{Kind: kind, AtPacket: at, ByteOff: []int{1, 2, 3, 4, 5, 12, 23, 24}[s.N(8)]}
		if s.Chance(1, 3) {
			p.Stream.ByteOff = 1 + s.N(300)
		}
	case stopBadSeq:
		p.Stream = StreamPlan{Kind: kind, AtPacket: at, SeqDelta: []int{1, -1, 5, -3}[s.N(4)]}
	case stopERR:
		p.Stream = StreamPlan{Kind: kind, AtPacket: at, ErrCode: uint16(1 + s.N(65535)), ErrMsg: genErrMsg(s), ThenFIN: s.Chance(1, 2)}
		if s.Chance(1, 3) {
			p.Stream.ErrCode = []uint16{1236, 1236, 1045, 1290, 1792, 2013, 1053, 1317}[s.N(8)]
		}
	case stopEOF:
		p.Stream = StreamPlan{Kind: kind, AtPacket: at, ThenFIN: s.Chance(1, 2)}
	case stopInvalidEvent:
		p.Stream = StreamPlan{Kind: kind, AtPacket: at, Invalid: invalidPayload(s, h)}
		if s.Chance(1, 6) {
			// garbage from the first byte on (a proxy writing text into the stream ...)
			p.Stream.FirstByte = byte(1 + s.N(0xfd))
		}
		// what follows the malformed packet: the rest of the stream, or the end of it
		p.Stream.After = s.Weighted(5, 1, 1, 1)
		secondGarbage(s, &p.Stream)
	case stopUnsupportedEvent:
		p.Stream = StreamPlan{Kind: kind, AtPacket: at, BadType: []byte{evRowsQuery, evIntVar, evRand}[s.N(3)]}
		if s.Chance(1, 2) {
			// an event of a type the library decodes, with a body it cannot decode
			p.Stream.BadVariant = 1 + s.N(6)
			p.Stream.BadBytes = s.Bytes(s.N(31))
			if p.Stream.AtPacket < 2 {
				p.Stream.AtPacket = 2 // behind the format description (a rotate in front of it is skipped unread)
			}
		}
		secondGarbage(s, &p.Stream)
	case stopCancel:
		p.CancelAfter = at
		p.CancelWhen = s.N(6)
	case stopHandlerErr, stopMapperErr, stopMapperMiscount:
		p.CallIndex = 1 + at
		p.MiscountDelta = []int{1, -1, 2, -2, 5}[s.N(5)]
		p.EnvErrKind = s.Weighted(4, 1, 1, 1, 1)
		p.EnvCancels = s.Chance(1, 5)
		p.ErrWithTable = s.Chance(1, 3)
	case stopTimeout:
		p.CancelAfter = at
	case stopHandshakeFIN:
		p.HandshakeCut = s.N(90)
	}
	p.BlockedAtStop = s.Chance(1, 3)
	switch kind {
	case stopFIN, stopRST, stopShortPacket, stopBadSeq, stopERR, stopEOF, stopInvalidEvent, stopUnsupportedEvent,
		stopHandlerErr, stopMapperErr, stopMapperMiscount:
		// a caller without any way to cancel (context.Background())
		if !p.EnvCancels && s.Chance(1, 6) {
			p.NoCancelCtx = true
		}
	}
}

// secondGarbage: a bad connection rarely sends one bad packet. A third of the
// injected packets are followed at once by a second malformed one that is too
// short to hold a header; it is in the reader's hands when the first is rejected.
func secondGarbage(s *Stream, sp *StreamPlan) {
	if s.Chance(1, 3) {
		sp.Second = true
		sp.Invalid2 = s.Bytes(s.N(19))
	}
}

// packetCount returns how many packets the master would send for a start position.
func packetCount(h *History, start Pos) int {
	fi := h.fileIndex(start.File)
	if fi < 0 {
		return 0
	}
	n := 0
	for f := fi; f < len(h.Files); f++ {
		n++ // fake rotate
		if f == fi && start.Off > 4 {
			n++
		}
		for _, e := range h.Files[f].Events {
			if f == fi && int64(e.Offset) < start.Off {
				continue
			}
			n++
		}
	}
	return n
}

type faultEmphasis struct {
	Bystander    bool // C07: some runs have a second Streamer with the same server id in the process
	EnvPanic     bool // C05: some failing callbacks panic instead of returning an error
	StartHigh    bool // C05: start offsets with bits above 2^32 set
	Backlog      bool // C05: some runs cancel early in a long backlog the master sends at once
	GateAccepted bool // C17: some injected packets are bare headers that pass the validity gate
	ConnPhase    int  // 1/n chance that a fault attempt is a connection-phase fault
	Kinds        []stopKind
	MaxFaults    int
	OddNames     bool
	Timeout      bool
	FreshChance  int
}

func genFaultScenario(t *Tape, o *GenOpts, em faultEmphasis) *Scenario {
	hs := t.S("hist")
	backlog := em.Backlog && t.S("backlog").Chance(1, 16)
	if backlog {
		// a replica that starts far behind: a hundred and more small transactions the
		// master sends as fast as the socket takes them
		oc := *o
		oc.MinUnits, oc.MaxUnits = 100, 150
		oc.MaxStmts, oc.MaxRows, oc.MaxCols, oc.MaxTables = 2, 2, 3, 4
		oc.Prof = genProfile{MaxStr: 6, Kinds: []colKind{kTiny, kLong, kVarchar, kYear}}
		oc.WideTables, oc.Rare = false, false
		// only units whose every event makes the parser log (a scheduling point in
		// this mode, see below): no ignorable events, no rotation
		oc.UnitWeights = [numUnitKinds]int{uTxXID: 6, uTxCommit: 2, uDDL: 3, uAutoRows: 3}
		oc.MaxFiles, oc.IgnorableGap, oc.Bulk, oc.LongIdle = 1, 0, 0, 0
		o = &oc
	}
	h := genHistoryFor(t, hs, o)
	cs := t.S("cfg")
	fs := t.S("fault")
	sc := &Scenario{Hist: h, Start: pickStart(cs, h, true), ServerID: replicaIDOf(t)}
	if backlog {
		sc.Start = h.Boundaries()[0]
	}
	sc.Scribble = cs.Chance(1, 6) // a consumer that overwrites what it accepted, also across attempts
	if em.Timeout {
		sc.ReadTimeout = cs.Chance(1, 3)
	}
	if em.Bystander && cs.Chance(1, 6) {
		sc.Bystander = true
	}
	if em.StartHigh && cs.Chance(1, 16) {
		sc.StartHigh = []int64{1 << 32, 3 << 32, 1 << 40, 1 << 62}[cs.N(4)]
	}
	nf := 1 + fs.N(em.MaxFaults)
	npk := packetCount(h, sc.Start)
	exp, _ := h.Model(sc.Start)
	kinds := em.Kinds
	if kinds == nil {
		kinds = faultKinds
	}
	for i := 0; i < nf; i++ {
		var p AttemptPlan
		genPolicy(t.S("policy"), &p)
		if em.ConnPhase > 0 && fs.Chance(1, em.ConnPhase) {
			fillFault(fs, h, connFaultKinds[fs.N(len(connFaultKinds))], 0, &p)
		} else {
			k := kinds[fs.N(len(kinds))]
			at := fs.N(npk + 1)
			if npk > 256 && fs.Chance(1, 3) {
				at = 255 + 256*fs.N(npk/256) - fs.N(2) // around the packet whose sequence id wraps to 0
			}
			if npk > 1000 {
				// the N-th packet of the dump for the largest round N the history reaches
				for _, n := range []int{10000, 4096, 1024, 1000} {
					if npk >= n {
						at = n - 1 - fs.N(2)*fs.N(2)
						break
					}
				}
			}
			switch k {
			case stopHandlerErr:
				at = fs.N(len(exp) + 1)
			case stopMapperErr, stopMapperMiscount:
				at = fs.N(len(h.Tables) + 1)
			}
			if sc.ReadTimeout && fs.Chance(1, 4) {
				k = stopTimeout
			}
			fillFault(fs, h, k, at, &p)
			if npk > 1000 && k == stopInvalidEvent && fs.Chance(1, 2) {
				p.Stream.Invalid = fs.Bytes(fs.N(19)) // header-less, at a round ordinal
			}
			if em.EnvPanic && (k == stopHandlerErr || k == stopMapperErr) && fs.Chance(1, 5) {
				p.EnvPanic = true
			}
			if em.GateAccepted && k == stopInvalidEvent && fs.Chance(1, 8) {
				// a header and nothing else (19 bytes), or a header and 1..3 bytes: the
				// length field is right, so the gate accepts the buffer; with checksums on
				// it is shorter than header + checksum. What the stream does with it is
				// not specified - header accessors must not fail on it, nothing may panic.
				n := 19 + fs.N(4)
				b := fs.Bytes(n)
				b[4] = []byte{16, 16, 16, 3, 27, 35, 36, 40, 99, 200}[fs.N(10)] // XID, STOP, HEARTBEAT, unknown types
				b[9], b[10], b[11], b[12] = byte(n), 0, 0, 0
				p.Stream.Invalid, p.Stream.GateAccepted, p.Stream.Second, p.Stream.FirstByte = b, true, false, 0
				if p.Stream.AtPacket < 2 {
					p.Stream.AtPacket = 2
				}
			}
		}
		if em.FreshChance > 0 && i > 0 && fs.Chance(1, em.FreshChance) {
			p.FreshStreamer = true
		}
		if i > 0 && sc.Attempts[i-1].Stop == stopHandlerErr && fs.Chance(1, 3) {
			p.SkipRefused = true
		}
		if backlog && i == 0 {
			// the caller cancels a few packets into the backlog; the rest keeps
			// arriving ahead of the parser
			q := p
			q.Stream = StreamPlan{}
			fillFault(fs, h, stopCancel, 3+fs.N(30), &q)
			q.Pacing, q.BlockedAtStop, q.NoCancelCtx, q.StallAfterStop = 0, false, false, false
			q.IdleFor, q.SlowHandler, q.EnvPanic, q.SkipRefused = 0, 0, false, false
			q.Seg = 0 // the whole backlog sits in the socket buffer
			// the parser pauses inside every event (its log calls are scheduling
			// points), so the reader always has the next event ready
			q.LogYield, q.DebugYield = true, true
			p = q
		}
		sc.Attempts = append(sc.Attempts, p)
	}
	last := cleanAttempt(cs, t.S("policy"))
	if sc.Attempts[nf-1].Stop == stopHandlerErr && fs.Chance(1, 3) {
		last.SkipRefused = true
	}
	sc.Attempts = append(sc.Attempts, last)
	return sc
}

func describeScenario(sc *Scenario) map[string]interface{} {
	h := sc.Hist
	units := []string{}
	for i, u := range h.Units {
		units = append(units, fmt.Sprintf("%d:%s[%s:%d-%d]", i, u.Desc, h.Files[u.File].Name, u.Start, u.End))
	}
	atts := []string{}
	for _, a := range sc.Attempts {
		s := fmt.Sprintf("stop=%v pacing=%d seg=%d", a.Stop, a.Pacing, a.Seg)
		if a.Stop.streamComposed() {
			s += fmt.Sprintf(" at-packet=%d", a.Stream.AtPacket)
		}
		if a.Stop == stopCancel {
			s += fmt.Sprintf(" after=%d when=%d", a.CancelAfter, a.CancelWhen)
		}
		if a.Stop == stopHandlerErr || a.Stop == stopMapperErr || a.Stop == stopMapperMiscount {
			s += fmt.Sprintf(" call=%d", a.CallIndex)
		}
		if a.FreshStreamer {
			s += " fresh-streamer"
		}
		atts = append(atts, s)
	}
	files := []string{}
	for _, f := range h.Files {
		files = append(files, fmt.Sprintf("%s(size=%d,gap=%d,events=%d,crc32=%v)", f.Name, f.Size, f.Gap, len(f.Events), f.Checksum))
	}
	return map[string]interface{}{
		"config": fmt.Sprintf("checksum=%v rowsV2=%v tableID4=%v gtid=%d server=%s", h.Cfg.Checksum, h.Cfg.RowsV2, h.Cfg.TableID4, h.Cfg.GTIDMode, h.Cfg.Format.ServerVersion),
		"files":  files, "units": strings.Join(units, " "), "start": sc.Start.String(),
		"server_id": sc.ServerID, "attempts": atts, "scribble": sc.Scribble, "read_timeout": sc.ReadTimeout,
	}
}

// replicaIDOf draws (once per tape) the server id the replica announces.
func replicaIDOf(t *Tape) uint32 {
	if t.replicaSet {
		return t.replicaID
	}
	t.replicaID = genServerID(t.S("replica"))
	t.replicaSet = true
	return t.replicaID
}

// genHistoryFor generates the history knowing the replica's own server id.
func genHistoryFor(t *Tape, hs *Stream, o *GenOpts) *History {
	o.ReplicaID, o.HaveReplica = replicaIDOf(t), true
	h := GenHistory(hs, o)
	h.replicaID = o.ReplicaID
	return h
}
