package verifsim

// Restricted JSON documents for JSON columns: an independent binary-JSON
// writer (small and large storage formats) and the expected rendering.
// Excluded on purpose: doubles (the printed exponent form is an
// implementation choice), opaque values other than non-negative TIME, and
// strings containing quotes.

import (
	"fmt"
	"sort"
	"strconv"
	"strings"
)

const (
	jObject = iota
	jArray
	jLiteral
	jInt
	jUint
	jString
	jTime // an opaque MYSQL_TYPE_TIME scalar (CAST(TIME'..' AS JSON), TIMEDIFF(..) in a JSON_OBJECT): non-negative only
)

type jdoc struct {
	Kind  int
	Keys  []string
	Kids  []jdoc
	Lit   byte // 0 null, 1 true, 2 false
	I     int64
	U     uint64
	S     string
	Large bool
}

func genJSONDoc(s *Stream, depth int) jdoc {
	if depth > 0 && s.Chance(1, 14) {
		h, m, sec := genTimeParts(s)
		us := 0
		if s.Chance(1, 3) {
			us = s.N(1000000)
		}
		return jdoc{Kind: jTime, U: (uint64(h)<<12|uint64(m)<<6|uint64(sec))<<24 | uint64(us)}
	}
	w := []int{2, 2, 2, 3, 2, 3}
	if depth >= 2 {
		w[0], w[1] = 0, 0
	}
	switch s.Weighted(w...) {
	case 0:
		n := s.N(5)
		d := jdoc{Kind: jObject, Large: s.Chance(1, 6)}
		seen := map[string]bool{}
		for i := 0; i < n; i++ {
			k := fmt.Sprintf("k%d", s.N(50))
			if seen[k] {
				continue
			}
			seen[k] = true
			d.Keys = append(d.Keys, k)
		}
		// MySQL stores keys sorted by length, then bytes
		sort.Slice(d.Keys, func(a, b int) bool {
			if len(d.Keys[a]) != len(d.Keys[b]) {
				return len(d.Keys[a]) < len(d.Keys[b])
			}
			return d.Keys[a] < d.Keys[b]
		})
		for range d.Keys {
			d.Kids = append(d.Kids, genJSONDoc(s, depth+1))
		}
		return d
	case 1:
		n := s.N(5)
		d := jdoc{Kind: jArray, Large: s.Chance(1, 6)}
		for i := 0; i < n; i++ {
			d.Kids = append(d.Kids, genJSONDoc(s, depth+1))
		}
		return d
	case 2:
		return jdoc{Kind: jLiteral, Lit: byte(s.N(3))}
	case 3:
		var v int64
		switch s.Weighted(3, 1, 1, 1, 1, 1) {
		case 0:
			v = int64(s.N(200)) - 100
		case 1:
			v = -32768
		case 2:
			v = 32767
		case 3:
			v = -2147483648
		case 4:
			v = int64(s.U64())
		case 5:
			v = -32769
		}
		return jdoc{Kind: jInt, I: v}
	case 4:
		var v uint64
		switch s.Weighted(2, 1, 1, 1) {
		case 0:
			v = uint64(s.N(70000))
		case 1:
			v = 65535
		case 2:
			v = 4294967295
		case 3:
			v = s.U64() | 1<<63
		}
		return jdoc{Kind: jUint, U: v}
	default:
		n := s.N(12)
		if s.Chance(1, 10) {
			n = 120 + s.N(100) // two-byte variable length
		}
		b := s.Bytes(n)
		for i := range b {
			b[i] = 'a' + b[i]%26
		}
		return jdoc{Kind: jString, S: string(b)}
	}
}

// genDeepJSON: a document nested as deep as the server allows (100 containers),
// one level less, or any depth in between; the innermost container holds a scalar
// (or nothing), some levels have a sibling scalar next to the nested container.
func genDeepJSON(s *Stream) jdoc {
	depth := []int{100, 100, 99, 98, 5 + s.N(96)}[s.N(5)]
	var inner jdoc
	if s.Chance(1, 2) {
		inner = jdoc{Kind: jArray}
	} else {
		inner = jdoc{Kind: jObject}
	}
	if !s.Chance(1, 8) {
		leaf := genJSONDoc(s, 3)
		if inner.Kind == jObject {
			inner.Keys = []string{"v"}
		}
		inner.Kids = []jdoc{leaf}
	}
	d := inner
	for i := 1; i < depth; i++ {
		var c jdoc
		if s.Chance(1, 2) {
			c = jdoc{Kind: jArray, Kids: []jdoc{d}}
			if s.Chance(1, 10) {
				c.Kids = append(c.Kids, genJSONDoc(s, 3))
			}
		} else {
			c = jdoc{Kind: jObject, Keys: []string{"a"}, Kids: []jdoc{d}}
			if s.Chance(1, 10) {
				c.Keys = append(c.Keys, "b")
				c.Kids = append(c.Kids, genJSONDoc(s, 3))
			}
		}
		d = c
	}
	return d
}

func jsonVarLen(n int) []byte {
	out := []byte{}
	for {
		b := byte(n & 0x7f)
		n >>= 7
		if n > 0 {
			out = append(out, b|0x80)
		} else {
			return append(out, b)
		}
	}
}

// jsonScalarType returns the binary type byte of a scalar and whether it is
// inlined in a value entry of the given format.
func jsonScalar(d *jdoc, large bool) (typ byte, inline bool, enc []byte) {
	switch d.Kind {
	case jLiteral:
		return 4, true, []byte{d.Lit}
	case jInt:
		switch {
		case d.I >= -32768 && d.I <= 32767:
			return 5, true, leN(nil, uint64(d.I), 2)
		case d.I >= -2147483648 && d.I <= 2147483647:
			return 7, large, leN(nil, uint64(d.I), 4)
		default:
			return 9, false, leN(nil, uint64(d.I), 8)
		}
	case jUint:
		switch {
		case d.U <= 65535:
			return 6, true, leN(nil, d.U, 2)
		case d.U <= 4294967295:
			return 8, large, leN(nil, d.U, 4)
		default:
			return 10, false, leN(nil, d.U, 8)
		}
	case jString:
		return 12, false, append(jsonVarLen(len(d.S)), d.S...)
	case jTime:
		// opaque: field type (11 = TIME), variable length, the packed temporal value
		return 15, false, append([]byte{11, 8}, leN(nil, d.U, 8)...)
	}
	panic("jsonScalar")
}

// jsonValue returns (type byte, encoded value without the type byte).
func jsonValue(d *jdoc) (byte, []byte) {
	switch d.Kind {
	case jObject, jArray:
		large := d.Large
		osz := 2
		if large {
			osz = 4
		}
		n := len(d.Kids)
		isObj := d.Kind == jObject
		headerLen := 2 * osz
		if isObj {
			headerLen += n * (osz + 2)
		}
		headerLen += n * (1 + osz)
		keysBlob := []byte{}
		keyOff := make([]int, n)
		if isObj {
			for i, k := range d.Keys {
				keyOff[i] = headerLen + len(keysBlob)
				keysBlob = append(keysBlob, k...)
			}
		}
		valsBlob := []byte{}
		type ent struct {
			typ    byte
			inline []byte
			off    int
		}
		ents := make([]ent, n)
		for i := range d.Kids {
			kid := &d.Kids[i]
			if kid.Kind == jObject || kid.Kind == jArray {
				t, enc := jsonValue(kid)
				ents[i] = ent{typ: t, off: headerLen + len(keysBlob) + len(valsBlob)}
				valsBlob = append(valsBlob, enc...)
				continue
			}
			t, inl, enc := jsonScalar(kid, large)
			if inl {
				ents[i] = ent{typ: t, inline: enc}
			} else {
				ents[i] = ent{typ: t, off: headerLen + len(keysBlob) + len(valsBlob)}
				valsBlob = append(valsBlob, enc...)
			}
		}
		total := headerLen + len(keysBlob) + len(valsBlob)
		out := leN(nil, uint64(n), osz)
		out = leN(out, uint64(total), osz)
		if isObj {
			for i, k := range d.Keys {
				out = leN(out, uint64(keyOff[i]), osz)
				out = leN(out, uint64(len(k)), 2)
			}
		}
		for _, e := range ents {
			out = append(out, e.typ)
			if e.inline != nil {
				pad := make([]byte, osz)
				copy(pad, e.inline)
				out = append(out, pad...)
			} else {
				out = leN(out, uint64(e.off), osz)
			}
		}
		out = append(out, keysBlob...)
		out = append(out, valsBlob...)
		var t byte
		switch {
		case isObj && !large:
			t = 0
		case isObj && large:
			t = 1
		case !isObj && !large:
			t = 2
		default:
			t = 3
		}
		return t, out
	}
	t, _, enc := jsonScalar(d, false)
	return t, enc
}

func jsonBinary(d jdoc) []byte {
	t, enc := jsonValue(&d)
	return append([]byte{t}, enc...)
}

// jsonExpected is the rendering the decoder documents: SQL constructor
// expressions, scalars quoted at top level.
func jsonExpected(d jdoc, top bool) string {
	q := func(s string) string {
		if top {
			return "'" + s + "'"
		}
		return s
	}
	switch d.Kind {
	case jObject:
		parts := []string{}
		for i, k := range d.Keys {
			parts = append(parts, "'"+k+"'", jsonExpected(d.Kids[i], false))
		}
		return "JSON_OBJECT(" + strings.Join(parts, ",") + ")"
	case jArray:
		parts := []string{}
		for i := range d.Kids {
			parts = append(parts, jsonExpected(d.Kids[i], false))
		}
		return "JSON_ARRAY(" + strings.Join(parts, ",") + ")"
	case jLiteral:
		return q([]string{"null", "true", "false"}[d.Lit])
	case jInt:
		return q(strconv.FormatInt(d.I, 10))
	case jUint:
		return q(strconv.FormatUint(d.U, 10))
	case jString:
		if top {
			return "'\"" + d.S + "\"'"
		}
		return "'" + d.S + "'"
	case jTime:
		v := d.U >> 24
		t := fmt.Sprintf("%02d:%02d:%02d", (v>>12)&0x3ff, (v>>6)&0x3f, v&0x3f)
		if us := d.U & 0xffffff; us != 0 {
			t += fmt.Sprintf(".%06d", us)
		}
		return "CAST('" + t + "' AS TIME(6))"
	}
	return ""
}
