package verifsim

import (
	"fmt"
	"os"
	"testing"
)

// TestSig prints the canonical trace of one case (debugging aid for the
// determinism self-test): VSIM_MODE=sig VSIM_PROP=C01 VSIM_SIGSEED=<seed>.
func TestSig(t *testing.T) {
	if os.Getenv("VSIM_MODE") != "sig" {
		t.Skip()
	}
	setZone(3)
	spec := CaseSpec{Prop: os.Getenv("VSIM_PROP"), Tier: envStr("VSIM_TIER", "quick"), Seed: envU64("VSIM_SIGSEED", 1)}
	if v := os.Getenv("VSIM_SIGENUM"); v != "" {
		var e EnumSpec
		fmt.Sscanf(v, "%d,%d,%d,%d,%d,%d", &e.Kind, &e.At, &e.Pacing, &e.When, &e.Stall, &e.Code)
		spec.Enum = &e
	}
	if os.Getenv("VSIM_DESCRIBE") != "" {
		sc := buildScenario(&spec, spec.tape())
		d := describeScenario(sc)
		fmt.Println("files:", d["files"])
		fmt.Println("attempts:", d["attempts"])
		u := fmt.Sprint(d["units"])
		if len(u) > 1500 {
			u = u[:1500]
		}
		fmt.Println("units:", u)
		return
	}
	res := RunCase(t, spec)
	for _, r := range res.Runs {
		fmt.Println(scheduleSignature(r))
		for _, l := range r.Trace {
			fmt.Println(l)
		}
	}
	for _, l := range observedLines(res) {
		fmt.Println(l)
	}
	fmt.Println("trace-hash:", traceHash(res))
	fmt.Println("violations:", res.Violations)
	for _, a := range res.Runs[0].Results {
		fmt.Printf("plan: stop=%v errcode=%d at=%d causes=%v\n", a.Plan.Stop, a.Plan.Stream.ErrCode, a.Plan.Stream.AtPacket, a.Causes)
	}
}

func envStr(name, def string) string {
	if v := os.Getenv(name); v != "" {
		return v
	}
	return def
}
