package verifsim

import (
	"fmt"
	"os"
	"testing"
)

// TestSig prints the canonical trace of one case (debugging aid for the
// determinism self-test): VSIM_MODE=sig VSIM_PROP=C01 VSIM_SIGSEED=<seed>.
func TestSig(t *testing.T) {
	if os.Getenv("VSIM_MODE") != "sig" {
		t.Skip()
	}
	setZone(3)
	spec := CaseSpec{Prop: os.Getenv("VSIM_PROP"), Tier: "quick", Seed: envU64("VSIM_SIGSEED", 1)}
	res := RunCase(t, spec)
	for _, r := range res.Runs {
		fmt.Println(scheduleSignature(r))
		for _, l := range r.Trace {
			fmt.Println(l)
		}
	}
	for _, l := range observedLines(res) {
		fmt.Println(l)
	}
}
